"""C06 - numerical propagation converges to the true two-body solution."""

import math
from datetime import datetime, timedelta

import numpy as np
from hypothesis import strategies as st

from .. import env
from ..core import Facet, Violation
from ..gen import orbits as go
from ..oracles import twobody as tb

RULE = ("Bound orbits (rp above the surface, e <= 0.7) x integrator x step in [5,120] s (limited so that "
        "the angular rate at perigee times the step stays <= 0.15) x target within +-3 periods; single "
        "point-mass Earth.")
ASSUMPTIONS = [
    "oracle: analytic two-body solution (universal variables) in vf/oracles/twobody.py",
    "error constants C_method calibrated >= 20x above the worst ratio seen over the thorough tier; a wrong Butcher "
    "coefficient lowers the order and exceeds them by orders of magnitude",
    "forward iter() ranges are kept on the integration grid and >= 8 steps long (the open iteration-contract "
    "defects of KeplerNum belong to C08)",
]
LEVEL_TEXT = ("Generated-input search: observed convergence order from step halving, absolute error bound "
              "against the analytic solution, energy / angular-momentum drift, and split / output-step "
              "invariance. Exploration only.")
TECHNIQUE = "property-based testing (Hypothesis): differential vs analytic two-body solution + step-halving order estimate"

T0 = datetime(2012, 3, 1)
TWO_PI = 2 * math.pi
METHOD_ORDER = {"euler": 1, "rk4": 4}


def setup(shard):
    env.eop("missing-pass")


_LABELS = {"epoch": "UTC", "target": "UTC"}
LABELS = ["UTC", "UTC", "UTC", "TT", "GPS", "TAI"]  # exact offsets: the same instants to the microsecond


def use_labels(case):
    """The time scale the epoch (t = 0) and every other date of this case are written in: the instants are
    the same, so nothing may change."""
    _LABELS["epoch"] = case.get("epoch_label", "UTC")
    _LABELS["target"] = case.get("label", "UTC")


def label_cls(case):
    ls = {case.get("label", "UTC"), case.get("epoch_label", "UTC")}
    return ["labels:all-UTC"] if ls == {"UTC"} else ["labels:" + "+".join(sorted(ls))]


def mkdate(us):
    from beyond.dates import Date

    d = Date(T0 + timedelta(microseconds=us))
    label = _LABELS["epoch"] if us == 0 else _LABELS["target"]
    return d if label == "UTC" else d.change_scale(label)


@st.composite
def base_case(draw, methods, hmin=5, hmax=120, even=False, pframes=False):
    el = draw(go.elements(elliptic=True, hyperbolic=False, emax_ell=0.7, rp_range=(1.03, 7.0), mwind=0.5))
    mu = go.MU["Earth"]
    rp = el["a"] * (1 - el["e"])
    wp = math.sqrt(mu * (1 + el["e"]) / rp**3)
    h = draw(st.integers(hmin, hmax))
    h = max(hmin, min(h, int(0.15 / wp)))
    if even and h % 2:
        h += 1
    method = draw(st.sampled_from(methods))
    back = draw(st.integers(0, 3)) == 0
    return dict(el=el, h=h, method=method, back=back, label=draw(st.sampled_from(LABELS)),
                epoch_label=draw(st.sampled_from(LABELS)), spelling=draw(st.integers(0, 8)),
                # the form and the (non-rotating) frame the initial orbit is held in
                form=draw(st.sampled_from(["cartesian", "cartesian", "cartesian", "keplerian", "equinoctial", "spherical", "keplerian_mean"])),
                frame=draw(st.sampled_from(["EME2000", "EME2000", "EME2000", "GCRF", "MOD", "G50"])),
                # the frame the propagator integrates (and answers) in: its `frame` argument
                # (rarely another one: the body's position is then converted at every stage, 10x the cost)
                # (only where targets are a few steps away: the body's position is converted at every stage)
                pframe=draw(st.sampled_from(["EME2000"] * 21 + ["GCRF", "MOD", "G50"])) if pframes else "EME2000")


def build(case, h=None, tol=1e-3):
    from beyond.env.solarsystem import get_body
    from beyond.orbits import Orbit
    from beyond.propagators.keplernum import KeplerNum

    el = case["el"]
    earth = get_body("Earth")
    mu = earth.mu
    cart = tb.kep2cart(el["a"], el["e"], el["i"], el["raan"], el["argp"], el["nu"], mu)
    pframe = case.get("pframe", "EME2000")
    # alternative spellings of the same configuration: the body alone / in a list / in a tuple, the method
    # name in lower, upper or title case
    sp = case.get("spelling", 0)
    bodies = [earth, [earth], (earth,)][sp % 3]
    method = [case["method"], case["method"].upper(), case["method"].title()][(sp // 3) % 3]
    if pframe == "EME2000":
        prop = KeplerNum(timedelta(seconds=h or case["h"]), bodies, method=method, tol=tol)
    else:
        prop = KeplerNum(timedelta(seconds=h or case["h"]), bodies, method=method, tol=tol, frame=pframe)
    orb = Orbit(cart, mkdate(0), "cartesian", case.get("frame", "EME2000"), prop)
    if case.get("form", "cartesian") != "cartesian":
        orb.form = case["form"]
    if case.get("form", "cartesian") != "cartesian" or case.get("frame", "EME2000") != pframe:
        # the numbers the propagator starts from: the orbit re-expressed in the propagator's frame (the
        # conversions themselves are C01's and C02's matter)
        cart = np.asarray(orb.copy(form="cartesian", frame=pframe).base, float)
    return orb, cart, mu


def pos(sv):
    out = np.asarray(sv.copy(form="cartesian").base, float)
    if not np.all(np.isfinite(out)):
        raise Violation("non-finite", f"{out.tolist()}")
    return out


def rates(el, mu):
    n = math.sqrt(mu / el["a"] ** 3)
    rp = el["a"] * (1 - el["e"])
    wp = math.sqrt(mu * (1 + el["e"]) / rp**3)
    return n, wp


# ---------------------------------------------------------------- order

# err <= C * r * (wp h)^p * (wp |T|) ;  calibrated (see DESIGN) : worst seen / C < 0.05
C_ABS = {"euler": 15.0, "rk4": 1.0}


@st.composite
def order_case(draw):
    c = draw(base_case(["euler", "rk4"], hmin=6, even=True))
    el = c["el"]
    n, wp = rates(el, go.MU["Earth"])
    P = TWO_PI / n
    if c["method"] == "euler":
        N = draw(st.integers(8, 20))
    else:
        nmax = max(8, min(400, int(0.5 * P / c["h"])))
        N = draw(st.integers(8, nmax))
    c["N"] = N
    return c


def check_order(case):
    use_labels(case)
    p = METHOD_ORDER[case["method"]]
    h = case["h"]
    T = case["N"] * h * (-1 if case["back"] else 1)
    errs = []
    for hh in (h, h // 2):
        orb, cart, mu = build(case, h=hh)
        res = orb.propagate(mkdate(T * 10**6))
        ref = tb.propagate_uv(cart, T, mu)
        errs.append(float(np.linalg.norm(pos(res)[:3] - ref[:3])))
    n, wp = rates(case["el"], mu)
    r = float(np.linalg.norm(cart[:3]))
    bound = C_ABS[case["method"]] * case["el"]["a"] * (wp * h) ** p * (wp * abs(T)) + 1e-6
    ratio_b = errs[0] / bound
    if errs[0] > bound:
        raise Violation("abs-error", f"{case['method']} h={h}s T={T}s: error {errs[0]:.4g} m exceeds the order-{p} bound {bound:.4g} m")
    cls = [case["method"], "backward" if case["back"] else "forward"]
    nt = True
    if errs[1] > 1e-5:
        q = errs[0] / errs[1]
        lo, hi = (1.5, 2.7) if p == 1 else (11.0, 24.0)
        if not (lo <= q <= hi):
            raise Violation("order", f"{case['method']} h={h}s -> h/2: error ratio {q:.3f} (errors {errs[0]:.4g}, {errs[1]:.4g} m), "
                                     f"expected ~{2**p} for order {p}; T={T}s e={case['el']['e']:.4g}")
        cls.append("ratio-tested")
    else:
        nt = False
    return dict(nt=nt, cls=label_cls(case) + cls, ratio=ratio_b)


# ---------------------------------------------------------------- adaptive


@st.composite
def adaptive_case(draw):
    c = draw(base_case(["rkf54", "dopri54"]))
    n, wp = rates(c["el"], go.MU["Earth"])
    P = TWO_PI / n
    Tmax = min(3 * P, 2500 * c["h"])
    c["T_us"] = draw(go.uniform_int(int(0.02 * P * 1e6), int(Tmax * 1e6))) * (-1 if c["back"] else 1)
    c["tol"] = draw(st.sampled_from([1e-3, 1e-5, 1e-5, 1e-6, 1e-7]))
    # the request made in one piece, or in legs through the objects the library hands back (the returned orbit
    # propagated again; a point yielded by iter() propagated on; a copy / pickle of the returned orbit)
    c["legs"] = draw(st.sampled_from([[], [], [0.4], [0.5], [0.3, 0.7], [0.05], [0.95]]))
    c["via"] = draw(st.sampled_from(["propagate", "propagate", "iter", "copy", "pickle", "deepcopy"]))
    return c


def check_adaptive(case):
    use_labels(case)
    orb, cart, mu = build(case, tol=case["tol"])
    T = case["T_us"] * 1e-6
    legs = case.get("legs") or []
    via = case.get("via", "propagate")
    cur = orb
    for f in legs:
        mid_us = int(case["T_us"] * f)
        if via == "iter" and mid_us > 0:
            # the last point of an iteration that stops at the intermediate date
            pts = list(cur.iter(stop=mkdate(mid_us)))
            nxt = pts[-1]
            if nxt.date != mkdate(mid_us):
                nxt = cur.propagate(mkdate(mid_us))
        else:
            nxt = cur.propagate(mkdate(mid_us))
        if via == "copy":
            nxt = nxt.copy()
        elif via == "pickle":
            import pickle

            nxt = pickle.loads(pickle.dumps(nxt))
        elif via == "deepcopy":
            import copy

            nxt = copy.deepcopy(nxt)
        cur = nxt
    res = cur.propagate(mkdate(case["T_us"]))
    ref = tb.propagate_uv(cart, T, mu)
    err = float(np.linalg.norm(pos(res)[:3] - ref[:3]))
    steps = abs(T) / case["h"] + 8 * (1 + len(legs))
    n, wp = rates(case["el"], mu)
    # "a small multiple of the tolerance per step": calibration over 1500 cases gave err <= 1.0 * tol * steps;
    # the 3 cm floor is the float-MJD abscissa of the final interpolation (0.63 us x 7.5 km/s = 5 mm seen)
    bound = 10 * case["tol"] * steps + 0.03 * (1 + len(legs))
    if err > bound:
        raise Violation("adaptive-error", f"{case['method']} tol={case['tol']} h={case['h']}s T={T:.1f}s"
                                          + (f" reached in legs cut at {legs} of the span (through {via})" if legs else "")
                                          + f": error {err:.4g} m > {bound:.4g} m")
    return dict(nt=True, cls=label_cls(case) + [case["method"], f"tol={case['tol']}", "backward" if case["back"] else "forward",
                                                f"legs:{len(legs) + 1}"] + ([f"via:{via}"] if legs else []),
                ratio=err / bound)


# ---------------------------------------------------------------- short targets (fewer steps than the interpolation order)


@st.composite
def short_case(draw):
    c = draw(base_case(["euler", "rk4", "rkf54", "dopri54"], pframes=True))
    c["T_us"] = draw(go.uniform_int(-8 * c["h"] * 10**6, 8 * c["h"] * 10**6))
    where = draw(st.integers(0, 3))
    if where == 0:  # on the grid
        c["T_us"] = round(c["T_us"] / (c["h"] * 1e6)) * c["h"] * 10**6
    elif where == 1:  # a few microseconds off an integration point: still its own instant, not the node's
        c["T_us"] = round(c["T_us"] / (c["h"] * 1e6)) * c["h"] * 10**6 + draw(st.sampled_from([-1, 1])) * draw(st.integers(1, 300))
    c["back"] = c["T_us"] < 0
    return c


def check_short(case):
    use_labels(case)
    orb, cart, mu = build(case, tol=1e-3)
    T = case["T_us"] * 1e-6
    res = orb.propagate(mkdate(case["T_us"]))
    if res.date != mkdate(case["T_us"]):
        raise Violation("date", f"result dated {res.date}")
    ref = tb.propagate_uv(cart, T, mu)
    err = float(np.linalg.norm(pos(res)[:3] - ref[:3]))
    n, wp = rates(case["el"], mu)
    h = case["h"]
    a = case["el"]["a"]
    # the target is interpolated in a table that extends up to 8 steps away from the epoch
    span = 8 * h
    if case["method"] in C_ABS:
        p = METHOD_ORDER[case["method"]]
        bound = C_ABS[case["method"]] * a * (wp * h) ** p * (wp * span)
    else:
        bound = 10 * 1e-3 * 16
    # Lagrange-8 through integrated points: remainder + amplification of the table's own error
    bound = 3 * bound + 2.5 * a * (wp * h) ** 8 + 0.05
    if err > bound:
        raise Violation("short-target", f"{case['method']} h={h}s: target {T:.3f}s from the epoch is off by {err:.4g} m (> {bound:.4g} m)")
    # a date a few microseconds off an integration point is its own instant: the state there lies on the chord
    # from the node's state to the state 1 ms further on, in proportion (all three come from the same table,
    # so the integration error cancels - Euler's positions and velocities are inconsistent at O(h), hence
    # positions only; what is left is the 0.6 us resolution of the re-sampling abscissa, 5 mm at 7.5 km/s)
    hus = h * 10**6
    node_us = round(case["T_us"] / hus) * hus
    d_us = case["T_us"] - node_us
    if 0 < abs(d_us) <= 300:
        far_us = 1000 if d_us > 0 else -1000
        node = pos(orb.propagate(mkdate(node_us)))
        far = pos(orb.propagate(mkdate(node_us + far_us)))
        speed = float(np.linalg.norm(far[:3] - node[:3])) / 1e-3
        exp = node[:3] + (far[:3] - node[:3]) * (d_us / far_us)
        off = float(np.linalg.norm(pos(res)[:3] - exp))
        tol = 2.5e-6 * speed + 0.02 * speed * abs(d_us) * 1e-6 + 1e-3
        if off > tol:
            raise Violation("near-node", f"{case['method']} h={h}s: the state {d_us} us off the integration point at {node_us / 1e6:.0f}s "
                            f"is {off:.4g} m off the chord from that point to the state 1 ms further (allowed {tol:.3g} m; "
                            f"it should have moved by {speed * abs(d_us) * 1e-6:.4g} m)")
    return dict(nt=abs(T) > 1e-3, cls=label_cls(case) + [case["method"], "backward" if T < 0 else "forward", "on-grid" if case["T_us"] % (h * 10**6) == 0 else
                                         ("near-grid" if min(case["T_us"] % (h * 10**6), -case["T_us"] % (h * 10**6)) <= 300 else "off-grid")],
                ratio=err / bound)


# ---------------------------------------------------------------- invariants


@st.composite
def inv_case(draw):
    c = draw(base_case(["euler", "rk4", "rkf54", "dopri54"]))
    n, wp = rates(c["el"], go.MU["Earth"])
    P = TWO_PI / n
    Tmax = min(3 * P, 2000 * c["h"])
    if c["method"] == "euler":
        Tmax = min(Tmax, 40 * c["h"])
    c["T_us"] = draw(go.uniform_int(int(8 * c["h"] * 1e6), int(max(9 * c["h"], Tmax) * 1e6))) * (-1 if c["back"] else 1)
    return c


C_INV = {"euler": 60.0, "rk4": 5.0}


def check_invariants(case):
    use_labels(case)
    orb, cart, mu = build(case, tol=1e-3)
    T = case["T_us"] * 1e-6
    got = pos(orb.propagate(mkdate(case["T_us"])))
    e0 = tb.cart2elements(cart, mu)
    e1 = tb.cart2elements(got, mu)
    dE = abs(e1["energy"] / e0["energy"] - 1)
    dh = abs(e1["h"] / e0["h"] - 1)
    n, wp = rates(case["el"], mu)
    h = case["h"]
    # floor: the state asked for is re-sampled through the integration grid (order-8 Lagrange); the statement
    # allows that "a few millimetres" - 1 mm of position is 1e-3/rp of energy / angular momentum
    # (worst seen: 4e-5 m equivalent, rk4 h=5 s on a 21 000 km orbit, where the truncation term is 3e-13)
    floor = 1e-3 / (case["el"]["a"] * (1 - case["el"]["e"])) + 1e-12
    if case["method"] in C_INV:
        p = METHOD_ORDER[case["method"]]
        bound = C_INV[case["method"]] * (wp * h) ** p * (wp * abs(T)) + floor
    else:
        steps = abs(T) / h + 8
        bound = 100 * 1e-3 * steps / (case["el"]["a"] * (1 - case["el"]["e"])) * 3 + floor
    if dE > bound or dh > bound:
        raise Violation("invariant-drift", f"{case['method']} h={h}s T={T:.1f}s: |dE/E|={dE:.3g} |dh/h|={dh:.3g} > {bound:.3g}")
    return dict(nt=True, cls=label_cls(case) + [case["method"], "backward" if case["back"] else "forward"], ratio=max(dE, dh) / bound)


# ---------------------------------------------------------------- split / output step


@st.composite
def split_case(draw):
    c = draw(base_case(["euler", "rk4", "rkf54", "dopri54"]))
    c["back"] = False
    h = c["h"]
    N = draw(st.integers(9, 160))  # span on the integration grid, >= 8 steps
    if draw(st.integers(0, 2)) == 0:
        # a span covered in fewer than 8 integration steps: the library refuses to re-sample it (C08's listed finding
        # keplernum-short-span) - a refusal is accepted here, an answer has to be right
        N = draw(st.integers(2, 8))
    c["N"] = N
    # output step: a divisor-free choice; target = m * s_out inside the span
    s_out = draw(st.integers(3, 3 * h))
    if draw(st.integers(0, 5)) == 0:
        s_out = h      # an output step asked explicitly that happens to equal the propagator's own step (another object)
    m = draw(st.integers(1, max(1, (N * h) // s_out)))
    c["s_out"] = s_out
    c["m"] = m
    c["k1"] = draw(st.integers(1, N - 1))  # intermediate state on the grid
    c["frac"] = draw(go.unit())  # intermediate state off the grid
    # the public way by which the tabulation is obtained
    c["route"] = draw(st.sampled_from(["iter", "iter", "iter-no-start", "ephemeris", "daterange", "ephem", "ephem-interpolated"]))
    # the tabulation may start elsewhere than at the orbit's own date (a positioning leg is integrated first):
    # k0 integration steps after (+) or before (-) it
    c["k0"] = draw(st.sampled_from([0, 0, 0, 1, 3, 17, 40, -1, -5, -30]))
    return c


def check_split(case):
    use_labels(case)
    h, N, s_out, m = case["h"], case["N"], case["s_out"], case["m"]
    T = m * s_out
    if T > N * h:
        return dict(nt=False)
    orb, cart, mu = build(case)
    n, wp = rates(case["el"], mu)
    a = case["el"]["a"]
    adaptive = case["method"] in ("rkf54", "dopri54")
    # Lagrange-8 remainder scale + the float-MJD abscissa of the resampling (0.63 us x 7.5 km/s = 5 mm)
    interp = 2.5 * a * (wp * h) ** 8 + 0.05
    route = case.get("route", "iter")
    k0 = case.get("k0", 0) if route != "iter-no-start" else 0
    t0 = k0 * h                       # where the tabulation starts, seconds from the orbit's date
    date = mkdate((t0 + T) * 10**6)
    direct = pos(orb.propagate(date))
    worst = 0.0
    # (b) iterate with another output step over an on-grid span
    found = None
    span = dict(start=mkdate(t0 * 10**6), stop=timedelta(seconds=N * h), step=timedelta(seconds=s_out))
    try:
        if route == "iter":
            stream = orb.iter(**span)
        elif route == "iter-no-start":  # the start defaults to the orbit's own date; the stop given as a date
            stream = orb.iter(stop=mkdate(N * h * 10**6), step=timedelta(seconds=s_out))
        elif route == "ephemeris":
            stream = orb.ephemeris(**span)
        elif route == "daterange":
            from beyond.dates import Date

            stream = orb.iter(dates=Date.range(mkdate(t0 * 10**6), mkdate((t0 + N * h) * 10**6), timedelta(seconds=s_out), inclusive=True))
        elif route == "ephem":
            stream = iter(orb.ephem(**span))
        else:  # the tabulated ephemeris interpolated at the date (a second re-sampling: its own remainder is added)
            eph = orb.ephem(**span)
            stream = [eph.propagate(date)] if len(eph) >= 8 else orb.iter(**span)
        for p_ in stream:
            if p_.date == date:
                found = pos(p_)
                break
    except ValueError as exc:
        if N <= 8 and "impossible to interpolate" in str(exc):
            return dict(nt=False, cls=label_cls(case) + [case["method"], "short-span-refused"], ratio=worst)
        raise
    if found is None:
        raise Violation("iter-missing-date", f"{route}(step={s_out}s) over {N * h}s never yielded t={T}s")
    d = float(np.linalg.norm(found[:3] - direct[:3]))
    # (a table of at most a dozen nodes: the tabulation and the direct request both interpolate at the edge of
    #  their own 8-node window - two independent remainders)
    tol_b = interp * (4 if N <= 12 else 1) + (0.0 if not adaptive else 2 * 10 * 1e-3 * ((abs(t0) + T) / h + 8))
    if k0 < 0 and not adaptive:
        # the direct request integrates backward from the orbit's date, the tabulation backward to its start and then
        # forward: two different discrete paths, each within the method's own bound (C_ABS, facet `order`)
        p_ = METHOD_ORDER[case["method"]]
        tol_b += 2 * C_ABS[case["method"]] * a * (wp * h) ** p_ * (wp * (2 * abs(t0) + T))
    worst = max(worst, d / tol_b)
    if d > tol_b:
        raise Violation("output-step", f"{case['method']} h={h}s: state at t={T}s differs by {d:.4g} m between propagate() and "
                                       f"{route}(step={s_out}s) (allowed {tol_b:.4g} m)")
    # (c) restart from an intermediate state lying on the integration grid (fixed-step methods: same grid)
    if not adaptive and k0 == 0:
        t1 = case["k1"] * h
        mid = orb.propagate(mkdate(t1 * 10**6))
        T2 = max(T, t1)
        two = pos(mid.propagate(mkdate(T2 * 10**6)))
        one = pos(orb.propagate(mkdate(T2 * 10**6)))
        d = float(np.linalg.norm(two[:3] - one[:3]))
        tol_c = 2 * interp
        worst = max(worst, d / tol_c)
        if d > tol_c:
            raise Violation("split-on-grid", f"{case['method']} h={h}s: propagate({t1}s) then propagate to {T2}s differs from the "
                                             f"direct result by {d:.4g} m (allowed {tol_c:.4g} m)")
    return dict(nt=T % h != 0, cls=label_cls(case) + [case["method"], "target-off-grid" if T % h else "target-on-grid", "route:" + route,
                                                      "start:at-epoch" if k0 == 0 else "start:later" if k0 > 0 else "start:earlier"], ratio=worst)


# ---------------------------------------------------------------- re-configured propagator object


@st.composite
def reconf_case(draw):
    c = draw(base_case(["euler", "rk4", "rkf54", "dopri54"], hmin=10, even=True))
    c["back"] = False
    c["N"] = draw(st.integers(9, 60))
    c["changes"] = draw(st.lists(st.sampled_from(["halve-step", "double-step", "method", "tol", "same"]), min_size=1, max_size=3))
    c["method2"] = draw(st.sampled_from(["euler", "rk4", "rkf54", "dopri54"]))
    c["off_us"] = draw(st.sampled_from([0, 0, draw(go.uniform_int(1, 10**6 * 5))]))
    return c


def check_reconf(case):
    """One orbit + one propagator object used, re-configured through its public attributes (as the
    repository's own tests do with `.method`), used again: every result must be the one a fresh,
    identically configured propagator gives (the state returned for a date does not depend on how the
    request history went)."""
    use_labels(case)
    from beyond.env.solarsystem import get_body
    from beyond.orbits import Orbit
    from beyond.propagators.keplernum import KeplerNum

    orb, cart, mu = build(case)
    prop = orb.propagator
    h, method, tol = case["h"], case["method"], 1e-3
    T_us = case["N"] * case["h"] * 10**6 + case["off_us"]
    date = mkdate(T_us)
    worst = 0.0
    n, wp = rates(case["el"], mu)
    a = case["el"]["a"]
    first = pos(orb.propagate(date))
    for ch in ["same"] + case["changes"]:
        if ch == "halve-step":
            h = max(1, h // 2)
        elif ch == "double-step":
            h = min(240, h * 2)
        elif ch == "method":
            method = case["method2"]
        elif ch == "tol":
            tol = 1e-5 if tol == 1e-3 else 1e-3
        prop.step = timedelta(seconds=h)
        prop.method = method
        prop.tol = tol
        got = pos(orb.propagate(date))
        fresh = Orbit(cart, mkdate(0), "cartesian", "EME2000",
                      KeplerNum(timedelta(seconds=h), get_body("Earth"), method=method, tol=tol))
        ref = pos(fresh.propagate(date))
        d = float(np.linalg.norm(got[:3] - ref[:3]))
        allowed = 2.5 * a * (wp * h) ** 8 + 0.05
        worst = max(worst, d / allowed)
        if d > allowed:
            raise Violation("reconfigured-propagator", f"propagator re-configured to ({method}, h={h}s, tol={tol}) after earlier use gives a state "
                                                       f"{d:.4g} m away from a fresh propagator with the same configuration (allowed {allowed:.3g} m)")
    return dict(nt=True, cls=label_cls(case) + [case["method"]] + ["chg:" + c for c in case["changes"]], ratio=worst)


FACETS = [
    Facet("order", lambda s, t: order_case(), check_order, setup=setup, shrink_quick=False,
          rule="both errors above 1e-5 m so the ratio is tested", quick=(8, 40), thorough=(16, 600)),
    Facet("adaptive", lambda s, t: adaptive_case(), check_adaptive, setup=setup, shrink_quick=False,
          rule="every case", quick=(8, 25), thorough=(16, 300)),
    Facet("short", lambda s, t: short_case(), check_short, setup=setup,
          rule="target not the epoch itself; within 8 integration steps on either side",
          quick=(8, 150), thorough=(16, 2000)),
    Facet("reconfigure", lambda s, t: reconf_case(), check_reconf, setup=setup,
          rule="every case: the same orbit + propagator object used before and after its public configuration is changed",
          quick=(6, 60), thorough=(16, 600)),
    Facet("invariants", lambda s, t: inv_case(), check_invariants, setup=setup, shrink_quick=False,
          rule="every case", quick=(8, 25), thorough=(16, 300)),
    Facet("split", lambda s, t: split_case(), check_split, setup=setup, shrink_quick=False,
          rule="target date off the integration grid", quick=(12, 50), thorough=(16, 500)),
]
