"""C14 - covariance frame changes are pure, path-independent rotations.

A case is a history: initial orbit + start frame + PSD matrix C0, then 1..5 operations
(cov_to / state_to / copy_cov / copy_state) interpreted on fresh library objects.  After every
step the attached covariance, now labelled F, must equal M C0 M^T where M is rebuilt by the harness
from the *pristine* state given in the start frame: for a built-in F the 6x6 map obtained by
sending the six basis states through Frame.transform (never through cov.py), for QSW / TNW the
oracle triad of the pristine position and velocity.  The expected matrix depends on F only, so
path independence, return-to-start and "follows its state" are all decided by the same comparison.
"""

import math

import numpy as np
from hypothesis import strategies as st

from ..core import Facet, Violation
from ..gen import orbits as go
from ..oracles import integrate as ig
from ..oracles import twobody as tb

RULE = ("History of >= 2 steps that asks for a local frame (QSW/TNW) after the covariance or its state "
        "has been in a frame other than the start frame, or that visits an Earth-fixed frame.")
ASSUMPTIONS = [
    "start frame (state and covariance) in {EME2000, MOD, TOD, TEME, GCRF, CIRF, G50}; targets: these + ITRF, PEF, "
    "TIRF + QSW, TNW; state given in cartesian or keplerian form; covariance frame given as a Frame object or "
    "(as documented and as the CCSDS reader does) as a frame name",
    "oracle for built-in frames: the 6x6 linear map of Frame.transform (C02) on basis states at the state's date - "
    "for Earth-fixed targets it contains the velocity coupling -omega x r, so the 'rotation' of the statement is "
    "the state-space map; the position block is a pure rotation in every case",
    "oracle for QSW / TNW: rows (r^, h^ x r^, h^) / (v^, h^ x v^, h^) of the pristine state in the start frame, applied "
    "to position and velocity blocks alike (no rate)",
    "entry tolerance 1e-9 s_i s_j with s^2 = trace of the 3x3 diagonal block of |M| |C0| |M|^T (rounding scale of the "
    "formula); C0 = A diag(10^(c + U(-5,5))) A^T with A orthogonal (condition <= 1e10), half of the cases rescaled "
    "to metres / metres per second standard deviations",
    "reattach: the same Cov object is attached to another state (other date within +-6 h, other orbit, given in a "
    "non-rotating frame); from then on the oracle is M C M^T with C the values at that moment, in the frame they are "
    "labelled with, and M built for the new state and date (1 history in 8 starts convert / carry / convert again)",
    "also varied: time-scale label of the state's date (UTC, TT, TAI, GPS, UT1, TDB - the oracle keeps the UTC date), "
    "dates next to UTC midnight, the turn of the year and 130-900 s from leap-second midnights, the matrix given as "
    "float64 array / list of lists / python ints / float32 / non-contiguous view / Fortran order / another Cov (and not "
    "kept by reference), state held in keplerian_mean / equinoctial form, states about another central body (sister "
    "frames of vf/props/c01.py: only QSW / TNW and the own frame), clones by copy.copy / copy.deepcopy / pickle of the "
    "state or of the covariance (the clone is sent to QSW/TNW and back; the original must not move)",
    "copy_cov may re-attach the copy to the state (orb.cov = copy), whatever frame the state is in by then",
    "EOP configuration 'zero' on even shards, 'real' on odd shards; dates 1975 .. 2016",
]
LEVEL_TEXT = "exploration"
LEVEL_NOTE = "Randomised histories of length <= 5; the 12 x 12 ordered target pairs are all reached but longer paths are sampled."
TECHNIQUE = "property-based testing (Hypothesis), histories as op lists, model = closed-form expectation per target frame"

TWO_PI = 2 * math.pi

START = ["EME2000", "MOD", "TOD", "TEME", "GCRF", "CIRF", "G50"]
ROTATING = ["ITRF", "PEF", "TIRF"]
BUILTIN = START + ROTATING
LOCAL = ["QSW", "TNW"]
OMEGA_E = 7.292115e-5  # rad/s
SISTER = {"VFMoonx2": ("Moon", 2), "VFMarsx3": ("Mars", 3)}   # EME2000 axes, centred on another body
SCALES = ["UTC", "UTC", "UTC", "TT", "TAI", "GPS", "UT1", "TDB"]
CONTAINERS = ["array", "array", "list", "int", "f32", "view", "fortran", "from_cov"]
FORMS = ["cartesian", "cartesian", "keplerian", "keplerian_mean", "equinoctial"]
# 1 Jan / 1 Jul midnights at which a leap second was inserted, 1975 .. 2016 (UTC)
LEAPS = [(1976, 1), (1977, 1), (1978, 1), (1979, 1), (1980, 1), (1981, 7), (1982, 7), (1983, 7), (1985, 7), (1988, 1),
         (1990, 1), (1991, 1), (1992, 7), (1993, 7), (1994, 7), (1996, 1), (1997, 7), (1999, 1), (2006, 1), (2009, 1),
         (2012, 7), (2015, 7)]


_sisters = {}


def ensure_frames():
    """frames with EME2000 axes and the Earth's origin whose central body is another one (k x the mass of `body`)"""
    from beyond import constants
    from beyond.frames import center, frames, orient

    for name, (body, k) in SISTER.items():
        if name not in _sisters:
            b = getattr(constants, body)
            c = center.Center(name + "C", body=constants.Body(name, b.mass * k, b.equatorial_radius))
            c.add_link(frames.get_frame("EME2000").center, orient.EME2000, np.zeros(6))
            _sisters[name] = frames.Frame(name, orient.EME2000, c)


def eop_of(shard):
    return "zero" if shard % 2 == 0 else "real"


def setup(shard):
    from .. import env

    env.eop(eop_of(shard))


# ------------------------------------------------------------------ generator

_i999 = st.integers(0, 999)


@st.composite
def history(draw):
    def u(lo=0.0, hi=1.0):
        return lo + (hi - lo) * (draw(_i999) * 10**6 + draw(_i999) * 1000 + draw(_i999)) / 1e9

    def pick(seq):
        return seq[draw(st.integers(0, len(seq) - 1))]

    hyp = draw(st.integers(0, 9)) == 9
    el = draw(go.elements(elliptic=not hyp, hyperbolic=hyp, emax_ell=0.9, rp_range=(1.03, 7.0), hmax=2.0, emax_hyp=4.0))
    centre = u(-1, 1)
    cov = dict(q=[u(-1, 1) for _ in range(36)], exps=[centre + u(-5, 5) for _ in range(6)],
               scaled=draw(st.booleans()), sr=10 ** u(-1, 4), sv=10 ** u(-4, 1))
    # strictly SEMI-definite matrices (the quantifier says positive semi-definite): some eigenvalues exactly zero,
    # or a position-only covariance (zero velocity rows and columns)
    sing = draw(st.integers(0, 5))
    if sing == 0:
        cov["null"] = sorted(set(draw(st.integers(0, 5)) for _ in range(draw(st.integers(1, 4)))))
    elif sing == 1:
        cov["position_only"] = True
    # 1975-01-01 .. 2016-12-31, microseconds since 1975-01-01
    span = 42 * 365 * 86400 * 10**6
    t = int(u() * span)
    kd = draw(st.integers(0, 9))
    DAY = 86400 * 10**6
    if kd == 0:
        t = t // (3600 * 10**6) * 3600 * 10**6
    elif kd in (1, 2):
        t = t // DAY * DAY + int(u(-90.0, 90.0) * 1e6)                  # next to a UTC midnight
    elif kd == 3:
        import datetime as _dt

        y = draw(st.integers(1976, 2016))
        t = int((_dt.datetime(y, 1, 1) - _dt.datetime(1975, 1, 1)).total_seconds()) * 10**6 + int(u(-90.0, 90.0) * 1e6)
    elif kd == 4:
        import datetime as _dt

        y, mth = pick(LEAPS)
        off = u(130.0, 900.0) * (1 if draw(st.booleans()) else -1)     # outside the documented +-120 s window
        t = int((_dt.datetime(y, mth, 1) - _dt.datetime(1975, 1, 1)).total_seconds()) * 10**6 + int(off * 1e6)
    cov["container"] = pick(CONTAINERS)
    cov["ints"] = [draw(st.integers(-3, 3)) for _ in range(15)] + [draw(st.integers(1, 9)) for _ in range(6)]
    sister = draw(st.integers(0, 11)) == 0
    def reattach():
        # the same Cov object is carried to another state: other date (up to +-6 h), other position / velocity
        return dict(op="reattach", dt=0.0 if draw(st.integers(0, 9)) == 0 else u(-21600.0, 21600.0),
                    el=draw(go.elements(hyperbolic=False, emax_ell=0.9, rp_range=(1.03, 7.0))),
                    frame=None if sister else pick([None, None, None] + START), scale=pick(SCALES))

    def clone():
        # ("rebuild": a covariance built FROM the covariance object - Cov(state, cov, frame) - a second-generation input)
        return dict(op="clone", what=pick(["state", "state", "cov", "cov"]), how=pick(["copy", "deepcopy", "pickle", "rebuild"]))

    def extra():
        # refused requests (must leave everything as it was) and snapshots taken BEFORE later in-place changes
        if draw(st.booleans()):
            return dict(op="refused", what=pick(["cov", "state", "copy_cov", "copy_state"]), frame=pick(["NOPE", "Hill", "eme2000"]))
        return dict(op="snapshot", how=pick(["copy", "pickle", "method"]))

    ops = []
    if draw(st.integers(0, 7)) == 0:
        # directed prefix: a conversion, possibly its way back, then the covariance is carried to another state
        g = pick(BUILTIN)
        ops.append(dict(op="cov_to", frame=g, how="str"))
        if draw(st.booleans()):
            ops.append(dict(op="cov_to", frame=None, how="str"))   # None = back to the frame the history started in
        ops.append(reattach())
        ops.append(dict(op=pick(["cov_to", "cov_to", "state_to"]), frame=g, how="str"))
    if sister:
        # a state about another central body: only its own frame and its local orbital frames exist for it
        ops = []
        for _ in range(draw(st.integers(1, 5))):
            k = draw(st.integers(0, 9))
            if k < 6:
                ops.append(dict(op="cov_to", frame=pick(LOCAL + LOCAL + [None]), how="str"))
            elif k < 8:
                ops.append(clone())
            elif k == 8:
                ops.append(dict(op="copy_cov", frame=pick([None] + LOCAL), adopt=draw(st.booleans())))
            else:
                ops.append(reattach())
        return dict(el=el, t=t, start=pick(sorted(SISTER)), form=pick(FORMS), label=pick(["obj", "obj", "str"]), cov=cov,
                    ops=ops, scale=pick(SCALES))
    for _ in range(draw(st.integers(1, 5)) - len(ops)):
        k = draw(st.integers(0, 27))
        if k >= 25:
            ops.append(extra())
        elif k >= 22:
            ops.append(clone())
        elif k >= 20:
            ops.append(reattach())
        elif k < 10:
            local = draw(st.integers(0, 9)) < 4
            ops.append(dict(op="cov_to", frame=pick(LOCAL) if local else pick(BUILTIN), how=pick(["str", "str", "obj"])))
        elif k < 14:
            ops.append(dict(op="state_to", frame=pick(BUILTIN)))
        elif k < 17:
            f = pick([None] + LOCAL + BUILTIN + LOCAL)
            ops.append(dict(op="copy_cov", frame=f, adopt=draw(st.booleans())))
        else:
            ops.append(dict(op="copy_state", frame=pick([None, None, None] + BUILTIN)))
    out = dict(el=el, t=t, start=pick(START), form=pick(FORMS),
               label=pick(["obj", "obj", "obj", "str"]), cov=cov, ops=ops, scale=pick(SCALES),
               attach=pick(["setter", "setter", "kwarg"]))
    for op in ops:
        if op["op"] == "copy_state" and op.get("frame") and draw(st.booleans()):
            op["same"] = True            # the frame is taken from a template object: copy(same=template)
    if draw(st.integers(0, 2)) == 0:
        out["given_in"] = pick(BUILTIN + LOCAL + START)
        out["pre"] = [dict(frame=pick(BUILTIN + LOCAL + [None]), how=pick(["set", "copy"]), how_name=draw(st.booleans()))
                      for _ in range(draw(st.integers(0, 2)))]
        out["rebuild"] = draw(st.integers(0, 3)) == 0
    return out


def make_c0(spec):
    kind = spec.get("container", "array")
    if kind == "int":
        # integer-valued PSD matrix L L^T (what a user types by hand: [[100, 0, ...], ...])
        L = np.zeros((6, 6))
        L[np.tril_indices(6, -1)] = spec["ints"][:15]
        L[np.diag_indices(6)] = spec["ints"][15:]
        return L @ L.T
    if kind == "f32":
        # single precision holds 7 digits: keep the condition number at 1e4
        spec = dict(spec, exps=[0.4 * x for x in spec["exps"]])
    C = _make_c0(spec)
    if kind == "f32":
        C = C.astype(np.float32).astype(float)      # exactly representable in single precision
    return C


def as_container(C, kind):
    """the caller's object holding the matrix C"""
    if kind == "list":
        return C.tolist()
    if kind == "int":
        return [[int(x) for x in row] for row in C]
    if kind == "f32":
        return C.astype(np.float32)
    if kind == "view":
        big = np.zeros((9, 14))
        big[1:7, 2:14:2] = C
        return big[1:7, 2:14:2]                      # non-contiguous view of a larger array
    if kind == "fortran":
        return np.asfortranarray(C)
    return C.copy()


def _make_c0(spec):
    q = np.array(spec["q"], float).reshape(6, 6)
    if abs(np.linalg.det(q)) < 1e-6:
        q = q + np.eye(6)
    A, _ = np.linalg.qr(q)
    lam = 10.0 ** np.array(spec["exps"], float)
    for k in spec.get("null") or []:
        lam[k] = 0.0
    C = A @ np.diag(lam) @ A.T
    if spec.get("position_only"):
        A3, _ = np.linalg.qr(q[:3, :3] + 3 * np.eye(3))
        C = np.zeros((6, 6))
        C[:3, :3] = A3 @ np.diag(lam[:3] + 10.0 ** spec["exps"][3]) @ A3.T
        return (C + C.T) / 2
    if spec["scaled"]:
        dg = np.sqrt(np.diag(C))
        C = C / np.outer(dg, dg)
        s = np.array([spec["sr"]] * 3 + [spec["sv"]] * 3)
        C = C * np.outer(s, s)
    return (C + C.T) / 2


# ------------------------------------------------------------------ model / oracle


def fname(f):
    return f if isinstance(f, str) else getattr(f, "name", repr(f))


class Model:
    def __init__(self, case):
        from beyond.constants import Earth
        from beyond.dates import Date, timedelta

        self.case = case
        self.mu = Earth.mu
        el = case["el"]
        self.c = tb.kep2cart(el["a"], el["e"], el["i"], el["raan"], el["argp"], el["nu"], self.mu)
        self.date = Date(1975, 1, 1) + timedelta(microseconds=case["t"])    # the instant, labelled UTC (oracle side)
        self.start = case["start"]
        self.C0 = make_c0(case["cov"])
        self.base = self.start          # frame in which C0 is expressed
        self.state_frame = self.start
        self.cov_frame = self.start
        self._m = {}
        self.visited_other = False
        self.rotating_seen = False
        self.nt = False
        # The library evaluates the Earth's rotation from a single-float Julian date (resolution 4e-5 s): the same
        # instant under another time-scale label rounds differently, i.e. Earth-fixed axes turned by up to
        # omega x 5e-5 s = 3.6e-9 rad.  Allowed only when a label other than UTC is in play.
        self.slack = 0.0

    def reattach(self, c, date, start, C, label):
        """the covariance object, holding values C labelled `label`, now belongs to another state"""
        self.c, self.date, self.start = np.asarray(c, float), date, start
        self.C0, self.base = np.array(C, float), label
        self.C0 = (self.C0 + self.C0.T) / 2
        self.state_frame, self.cov_frame = start, label
        self._m = {}
        self.visited_other = label != start
        self.nt = True

    def M(self, F):
        """map base -> F = N(F) N(base)^-1, N(X) = map from the frame the state is given in to X"""
        if self.base == self.start:
            return self.N(F)
        return self.N(F) @ np.linalg.inv(self.N(self.base))

    def N(self, F):
        if F not in self._m:
            if F in LOCAL:
                T = ig.triad(self.c, F)
                m = np.zeros((6, 6))
                m[:3, :3] = T
                m[3:, 3:] = T
            elif F == self.start:
                m = np.eye(6)
            else:
                from beyond.frames.frames import get_frame
                from beyond.orbits import StateVector

                src, dst = get_frame(self.start), get_frame(F)
                # the 6x6 matrix Frame.transform applies (same centre: no offset) ...
                m = np.asarray(src.orientation.convert_to(self.date, dst.orientation), float)
                # ... tied to Frame.transform itself (verified by C02) on the pristine state
                sv = StateVector(self.c, self.date, "cartesian", src)
                via = np.asarray(src.transform(sv, dst).base, float)
                if float(np.linalg.norm(via - m @ self.c)) > 1e-9 * float(np.linalg.norm(via)):
                    raise Violation("oracle-map", f"Frame.transform {self.start}->{F} is not the linear map of convert_to")
            self._m[F] = m
        return self._m[F]

    def expected(self, F):
        m = self.M(F)
        E = m @ self.C0 @ m.T
        B = np.abs(m) @ np.abs(self.C0) @ np.abs(m).T
        sp = math.sqrt(np.trace(B[:3, :3]))
        sv2 = np.trace(B[3:, 3:])
        if self.rotating_seen:
            # once expressed in an Earth-fixed frame the velocity block has held omega^2 C_pp (coupling -omega x r):
            # its rounding stays in the matrix when the covariance moves on
            sv2 += OMEGA_E**2 * np.trace(B[:3, :3])
        sv = math.sqrt(sv2)
        if sv < OMEGA_E * sp:
            sv = OMEGA_E * sp          # (a position-only covariance: the scale of what an Earth-fixed frame couples in)
        s = np.array([sp] * 3 + [sv] * 3)
        return (E + E.T) / 2, s

    def state(self, frame, form):
        """the pristine state expressed in `frame` (library conversion of a fresh object: C01 / C02)"""
        from beyond.orbits import StateVector

        sv = StateVector(self.c, self.date, "cartesian", self.start)
        if frame != self.start:
            sv = sv.copy(frame=frame)
        return np.asarray(sv.copy(form=form).base, float) if form != "cartesian" else np.asarray(sv.base, float)

    def note(self, target):
        """book-keeping for the non-trivial rule, called when a covariance is asked in `target`"""
        if target in ROTATING:
            self.nt = True
            self.rotating_seen = True
        if target in LOCAL and self.visited_other:
            self.nt = True
        if target not in LOCAL and target != self.start:
            self.visited_other = True


def describe(case, upto):
    out = [f"start {case['start']}" + (f" (cov given in {case['given_in']})" if case.get("given_in") else "")
           + "".join(f" standalone:{p['how']}->{p['frame'] or 'state frame'}" for p in case.get("pre") or [])
           + (" rebuilt" if case.get("rebuild") else "")]
    for op in case["ops"][: upto + 1]:
        f = op.get("frame")
        if op["op"] == "snapshot":
            out.append(f"snapshot({op['how']})")
        elif op["op"] == "refused":
            out.append(f"refused {op['what']}->{op['frame']}")
        elif op["op"] == "clone":
            out.append(f"clone({op['how']} of the {op['what']})")
        elif op["op"] == "reattach":
            out.append(f"reattach(other state, {op['dt']:+.0f} s, {f or 'same frame'})")
        else:
            out.append(f"{op['op']}({f if f is not None else 'first frame'})" + ("+adopt" if op.get("adopt") else ""))
    return " -> ".join(out)


def check_cov(model, cov, F, step, what="covariance", worst=None):
    case = model.case
    C = np.array(cov, dtype=float).reshape(6, 6)     # what cov[i, j] shows
    where = describe(case, step)
    got_label = fname(cov.frame)
    if got_label != F:
        raise Violation("cov-label", f"{what} is labelled {got_label}, expected {F} [{where}]", step=step)
    if not np.all(np.isfinite(C)):
        raise Violation("cov-nonfinite", f"{what} in {F} has non-finite entries [{where}]", step=step)
    E, s = model.expected(F)
    S = np.outer(s, s)
    err = float(np.max(np.abs(C - E) / S))
    rel = float(np.linalg.norm(C - E) / np.linalg.norm(E))
    vtol = 1e-9 + 2 * model.slack * (1 if model.rotating_seen else 0)
    if worst is not None:
        worst[0] = max(worst[0], err / vtol)
    if err > vtol:
        i, j = np.unravel_index(np.argmax(np.abs(C - E) / S), (6, 6))
        raise Violation("cov-values", f"{what} in {F} differs from M C0 M^T (M from the pristine {model.start} state): "
                        f"relative norm {rel:.3g}, worst entry [{i},{j}] = {C[i, j]!r} vs {E[i, j]!r} [{where}]",
                        step=step, rel=rel, target=F)
    asym = float(np.max(np.abs(C - C.T) / S))
    if worst is not None:
        worst[0] = max(worst[0], asym / 1e-11)
    if asym > 1e-11:
        raise Violation("cov-asymmetric", f"{what} in {F}: |C - C^T| = {asym:.3g} (scaled) [{where}]", step=step)
    w = np.linalg.eigvalsh((C + C.T) / 2 / S)
    # (a strictly semi-definite C0 has eigenvalues that are zero up to the rounding of its own construction:
    # the smallest eigenvalue is judged against that of the expected matrix)
    wE = np.linalg.eigvalsh(E / S)
    if w[0] < min(0.0, wE[0]) - 1e-9 * w[-1]:
        raise Violation("cov-not-psd", f"{what} in {F}: smallest eigenvalue {w[0]:.3g}, largest {w[-1]:.3g} (scaled) [{where}]",
                        step=step)
    wp = np.linalg.eigvalsh((C[:3, :3] + C[:3, :3].T) / 2)
    w0 = np.linalg.eigvalsh(model.C0[:3, :3])
    d = float(np.max(np.abs(wp - w0))) / (s[0] * s[0])
    if worst is not None:
        worst[0] = max(worst[0], d / 1e-9)
    if d > 1e-9:
        raise Violation("cov-position-spectrum", f"{what} in {F}: eigenvalues of the position block {wp.tolist()} differ from "
                        f"those of C0 {w0.tolist()} [{where}]", step=step)


def check_state(model, orb, form, step, what="state"):
    where = describe(model.case, step)
    if orb.frame.name != model.state_frame:
        raise Violation("state-label", f"{what} is in {orb.frame.name}, expected {model.state_frame} [{where}]", step=step)
    if orb.form.name != form:
        raise Violation("state-form", f"{what} is in form {orb.form.name}, expected {form} [{where}]", step=step)
    if form != "cartesian" and model.state_frame in ROTATING:
        return  # osculating elements of an Earth-fixed velocity are not meaningful (and C01's matter)
    got = np.asarray(orb.copy(form="cartesian").base, float)
    ref = model.state(model.state_frame, "cartesian")
    d = max(float(np.linalg.norm(got[:3] - ref[:3]) / np.linalg.norm(ref[:3])),
            float(np.linalg.norm(got[3:] - ref[3:]) / np.linalg.norm(ref[3:])))
    k = 1.0 if form == "cartesian" else 100.0 / abs(1 - model.case["el"]["e"]) / math.sin(model.case["el"]["i"])
    if not d <= 1e-9 * k + (model.slack if model.state_frame in ROTATING else 0.0):
        raise Violation("state-changed", f"{what} = {got.tolist()}, the pristine state expressed in {model.state_frame} is "
                        f"{ref.tolist()} [{where}]", step=step)


def check_history(case):
    from beyond.frames.frames import get_frame
    from beyond.orbits import StateVector
    from beyond.orbits.cov import Cov

    import copy as _copy
    import pickle as _pickle

    ensure_frames()
    model = Model(case)
    form = case["form"]
    scale = case.get("scale", "UTC")
    # same instant, other time-scale label (the oracle keeps the UTC-labelled date)
    lib_date = model.date if scale == "UTC" else model.date.change_scale(scale)
    if scale != "UTC" or any(op.get("scale", "UTC") != "UTC" for op in case["ops"]):
        model.slack = 4e-9
    orb = StateVector(model.c, lib_date, "cartesian", model.start)
    if form != "cartesian":
        orb = orb.copy(form=form)
    # The covariance may be given in another frame than its state's (CCSDS COV_REF_FRAME), converted while it still
    # stands alone, rebuilt from the converted object, and only then attached to the state
    given = case.get("given_in") or model.start
    model.base = given
    model.cov_frame = given
    if given in ROTATING:
        model.rotating_seen = True
    if given in LOCAL or case["label"] == "str":
        label = given
    else:
        label = orb.frame if given == model.start else get_frame(given)
    kind_c = case["cov"].get("container", "array")
    if kind_c == "from_cov":
        caller = None
        cov = Cov(orb, Cov(orb, model.C0.copy(), label), None)      # documented: values may be a Cov
    else:
        caller = as_container(model.C0, kind_c)
        cov = Cov(orb, caller, label)
        if isinstance(caller, np.ndarray):
            # the caller's matrix is not kept by reference
            keep = caller[0, 0]
            caller[0, 0] = keep + abs(keep) + 1
            if not np.array_equal(np.array(cov, dtype=float), model.C0):
                raise Violation("caller-matrix-aliased", f"writing into the matrix given to Cov() ({kind_c}) changed the covariance")
            caller[0, 0] = keep
    worst = [0.0]
    pre_txt = []
    for pre in case.get("pre") or []:
        X = pre["frame"] or model.start
        model.note(X)
        arg = X if (X in LOCAL or pre.get("how_name", True)) else get_frame(X)
        if pre["how"] == "copy":
            cov = cov.copy(frame=arg)
        else:
            cov.frame = arg
        model.cov_frame = X
        pre_txt.append(f"{pre['how']}->{X}")
        check_cov(model, cov, X, -1, what=f"the covariance given in {given}, still standalone, after {' '.join(pre_txt)},", worst=worst)
    if case.get("rebuild"):
        cov = Cov(orb, cov, None)
        check_cov(model, cov, model.cov_frame, -1, what=f"Cov(orb, <covariance converted to {model.cov_frame}>, None)", worst=worst)
    if case.get("attach") == "kwarg":
        # the covariance handed over at construction of the state (keyword argument) instead of through the setter
        orb = StateVector(np.array(orb.base, float), orb.date, orb.form, orb.frame, cov=cov)
    else:
        orb.cov = cov
    if model.base != model.start or pre_txt:
        model.nt = True
    snapshots = []
    worst = [0.0]
    check_cov(model, orb.cov, model.cov_frame, -1, worst=worst)
    cls = [f"start:{model.start}", f"eop:{_eop[0]}", "given:state-frame" if given == model.start else f"given:{given}",
           f"standalone-conversions:{len(pre_txt)}" + ("+rebuilt" if case.get("rebuild") else ""), f"attach:{case.get('attach', 'setter')}",
           f"label:{case['label']}", f"form:{form}", f"scale:{scale}", f"values:{kind_c}"]
    day_us = 86400 * 10**6
    off = (case["t"] + day_us // 2) % day_us - day_us // 2
    if abs(off) <= 90 * 10**6:
        cls.append("date:utc-midnight")
    elif abs(off) <= 900 * 10**6:
        cls.append("date:near-leap-midnight")
    for step, op in enumerate(case["ops"]):
        kind = op["op"]
        F = op.get("frame")
        if F is None and kind in ("cov_to", "state_to"):
            F = case["start"]
        cls.append(kind)
        if kind == "reattach":
            from beyond.dates import timedelta

            el2 = op["el"]
            c2 = tb.kep2cart(el2["a"], el2["e"], el2["i"], el2["raan"], el2["argp"], el2["nu"], model.mu)
            date2 = model.date + timedelta(seconds=op["dt"])
            start2 = op["frame"] or model.state_frame
            if start2 in ROTATING:
                start2 = case["start"]          # states are given in non-rotating frames
            cov = orb.cov
            kept = np.array(cov, dtype=float)
            label = fname(cov.frame)
            sc2 = op.get("scale", "UTC")
            other = StateVector(c2, date2 if sc2 == "UTC" else date2.change_scale(sc2), "cartesian", start2)
            other.cov = cov                      # the very same object, now about another state
            if other.cov is not cov or not np.array_equal(np.array(cov, dtype=float), kept) or fname(cov.frame) != label:
                raise Violation("reattach-changed", f"attaching the covariance to another state changed it "
                                f"[{describe(case, step)}]", step=step)
            orb = other
            form = "cartesian"
            model.reattach(c2, date2, start2, kept, label)
            check_cov(model, orb.cov, model.cov_frame, step, worst=worst)
            check_state(model, orb, form, step)
            continue
        if kind == "cov_to":
            model.note(F)
            before = np.array(orb.base, float)
            arg = F if (op["how"] == "str" or F in LOCAL) else get_frame(F)
            orb.cov.frame = arg
            model.cov_frame = F
            if not np.array_equal(np.asarray(orb.base, float), before):
                raise Violation("state-changed", f"cov.frame = {F} changed the coordinates of the state "
                                f"[{describe(case, step)}]", step=step)
        elif kind == "state_to":
            follows = model.cov_frame == model.state_frame
            kept = np.array(orb.cov, dtype=float)
            orb.frame = F
            model.state_frame = F
            if follows:
                model.note(F)
                model.cov_frame = F
                if fname(orb.cov.frame) != F:
                    raise Violation("cov-not-following", f"state and covariance were in the same frame; after orb.frame = {F} "
                                    f"the covariance is labelled {fname(orb.cov.frame)} [{describe(case, step)}]", step=step)
            elif not np.array_equal(np.array(orb.cov, dtype=float), kept):
                raise Violation("cov-dragged", f"covariance in {model.cov_frame} (state was in another frame) changed when the "
                                f"state went to {F} [{describe(case, step)}]", step=step)
        elif kind == "copy_cov":
            target = F if F is not None else model.cov_frame
            model.note(target)
            kept = np.array(orb.cov, dtype=float)
            kept_label = fname(orb.cov.frame)
            new = orb.cov.copy() if F is None else orb.cov.copy(frame=F)
            saved_cf = model.cov_frame
            model.cov_frame = target
            check_cov(model, new, target, step, what="the copy", worst=worst)
            model.cov_frame = saved_cf
            if not np.array_equal(np.array(orb.cov, dtype=float), kept) or fname(orb.cov.frame) != kept_label:
                raise Violation("source-changed", f"Cov.copy(frame={F}) changed the covariance it was called on "
                                f"[{describe(case, step)}]", step=step)
            v = float(new[0, 0])
            new[0, 0] = v + abs(v) + 1.0
            shared = not np.array_equal(np.array(orb.cov, dtype=float), kept)
            new[0, 0] = v
            if shared:
                raise Violation("copy-aliased", f"writing into Cov.copy(frame={F}) changed the original [{describe(case, step)}]",
                                step=step)
            if op.get("adopt"):
                orb.cov = new
                model.cov_frame = target
                cls.append("adopt")
        elif kind == "copy_state":
            old = orb
            kept_state = np.array(old.base, float)
            kept_cov = np.array(old.cov, dtype=float)
            kept_labels = (old.frame.name, fname(old.cov.frame))
            if F is not None and op.get("same"):
                template = StateVector([1.0, 2.0, 3.0, 4.0, 5.0, 6.0], old.date, old.form, get_frame(F))
                new = old.copy(same=template)
                cls.append("copy:same=")
            else:
                new = old.copy() if F is None else old.copy(frame=F)
            if (not np.array_equal(np.asarray(old.base, float), kept_state)
                    or not np.array_equal(np.array(old.cov, dtype=float), kept_cov)
                    or (old.frame.name, fname(old.cov.frame)) != kept_labels):
                raise Violation("source-changed", f"StateVector.copy(frame={F}) changed the object it was called on "
                                f"[{describe(case, step)}]", step=step)
            if new.cov is None:
                raise Violation("copy-lost-cov", f"the copy of the state has no covariance [{describe(case, step)}]", step=step)
            if new.cov is old.cov or np.shares_memory(np.asarray(new.cov.base), np.asarray(old.cov.base)):
                raise Violation("copy-aliased", f"the copy of the state shares its covariance with the original "
                                f"[{describe(case, step)}]", step=step)
            orb = new
            if F is not None:
                if model.cov_frame == model.state_frame:
                    model.note(F)
                    model.cov_frame = F
                model.state_frame = F
        elif kind == "refused":
            full = lambda o: (np.array(o.base, float), o.frame.name, o.form.name, np.array(o.cov, dtype=float), fname(o.cov.frame))
            kept = full(orb)
            try:
                if op["what"] == "cov":
                    orb.cov.frame = F
                elif op["what"] == "state":
                    orb.frame = F
                elif op["what"] == "copy_cov":
                    orb.cov.copy(frame=F)
                else:
                    orb.copy(frame=F)
            except Exception as exc:          # any refusal will do; what matters is the state afterwards
                refusal = type(exc).__name__
            else:
                raise Violation("not-refused", f"{op['what']} -> {F!r} was accepted [{describe(case, step)}]", step=step)
            now = full(orb)
            # (a state held in a non-cartesian form goes to cartesian and back around the failed attempt: one rounding)
            if form == "cartesian":
                same_state = np.array_equal(kept[0], now[0])
            else:
                as_cart = lambda arr: np.asarray(StateVector(arr, orb.date, form, orb.frame).copy(form="cartesian").base, float)
                a_, b_ = as_cart(kept[0]), as_cart(now[0])
                # (compared against the size of the vectors: a component that is exactly zero before comes back as 1e-9 m)
                same_state = (float(np.linalg.norm(a_[:3] - b_[:3])) <= 1e-9 * float(np.linalg.norm(a_[:3]))
                              and float(np.linalg.norm(a_[3:] - b_[3:])) <= 1e-9 * float(np.linalg.norm(a_[3:])))
            if not (same_state and kept[1:3] == now[1:3] and np.array_equal(kept[3], now[3]) and kept[4] == now[4]):
                raise Violation("refusal-not-atomic", f"{op['what']} -> {F!r} raised {refusal} but left the state / covariance changed: "
                                f"labels {kept[1], kept[4]} -> {now[1], now[4]} [{describe(case, step)}]", step=step)
            cls.append(f"refused:{op['what']}:{F}")
        elif kind == "snapshot":
            snap = {"copy": lambda o: _copy.deepcopy(o), "pickle": lambda o: _pickle.loads(_pickle.dumps(o)),
                    "method": lambda o: o.copy()}[op["how"]](orb)
            snapshots.append((snap, np.array(snap.base, float), snap.frame.name, np.array(snap.cov, dtype=float),
                              fname(snap.cov.frame), step, op["how"]))
            cls.append(f"snapshot:{op['how']}")
        elif kind == "clone":
            if op["how"] == "rebuild":
                # (a covariance built while its state sits in a rotating frame takes its QSW / TNW axes from the
                # velocity relative to that frame - outside the quantifier: an ordinary copy is taken instead)
                op = dict(op, what="cov", how="rebuild" if model.state_frame not in ROTATING else "copy")
            fn = {"copy": _copy.copy, "deepcopy": _copy.deepcopy,
                  "pickle": lambda o: _pickle.loads(_pickle.dumps(o)),
                  "rebuild": lambda c: type(c)(orb, c, c.frame)}[op["how"]]
            cls.append(f"clone:{op['how']}:{op['what']}")
            old = orb
            kept_cov = np.array(old.cov, dtype=float)
            kept_label = fname(old.cov.frame)
            if op["what"] == "state":
                new = fn(old)
                if new.cov is None:
                    raise Violation("copy-lost-cov", f"{op['how']} of the state has no covariance [{describe(case, step)}]", step=step)
                twin_cov = new.cov
            else:
                twin_cov = fn(old.cov)
            # the clone is a value of its own: converting it leaves the original alone
            probe = "TNW" if kept_label != "TNW" else "QSW"
            twin_cov.frame = probe
            if not np.array_equal(np.array(old.cov, dtype=float), kept_cov) or fname(old.cov.frame) != kept_label:
                raise Violation("copy-aliased", f"converting the {op['how']} clone of the {op['what']} to {probe} changed the "
                                f"covariance of the original [{describe(case, step)}]", step=step, how=op["how"])
            saved = model.cov_frame
            model.note(probe)
            check_cov(model, twin_cov, probe, step, what=f"the {op['how']} clone, sent to {probe},", worst=worst)
            twin_cov.frame = kept_label if kept_label in LOCAL else get_frame(kept_label)
            model.cov_frame = saved
            if op["what"] == "state":
                orb = new                       # go on with the clone
            else:
                orb.cov = twin_cov
        else:
            raise ValueError(kind)
        check_cov(model, orb.cov, model.cov_frame, step, worst=worst)
        check_state(model, orb, form, step)
    # return to the start frame restores C0 (a last hop that every history ends with)
    n = len(case["ops"])
    orb.cov.frame = model.base
    model.cov_frame = model.base
    check_cov(model, orb.cov, model.base, n - 1, what="the covariance brought back to the frame it was given in", worst=worst)
    for snap, st0, fr0, cv0, lb0, at, how_s in snapshots:
        if (not np.array_equal(np.asarray(snap.base, float), st0) or snap.frame.name != fr0
                or not np.array_equal(np.array(snap.cov, dtype=float), cv0) or fname(snap.cov.frame) != lb0):
            raise Violation("snapshot-changed", f"a snapshot ({how_s}) taken after step {at} was changed by what happened to the "
                            f"original afterwards: cov label {lb0} -> {fname(snap.cov.frame)} [{describe(case, n - 1)}]")
    if isinstance(caller, np.ndarray) and not np.array_equal(np.asarray(caller, float), as_container(make_c0(case["cov"]), kind_c)):
        raise Violation("caller-matrix-changed", f"the matrix given to Cov() ({kind_c}) was modified by the conversions")
    if model.nt:
        cls.append("nontrivial")
    cls.append(f"len:{n}")
    return dict(nt=model.nt, cls=cls, ratio=worst[0])


_eop = ["?"]


def setup_and_note(shard):
    setup(shard)
    _eop[0] = eop_of(shard)


FACETS = [
    Facet("histories", lambda s, t: history(), check_history, setup=setup_and_note, rule=RULE,
          quick=(16, 200), thorough=(32, 2500)),
]
