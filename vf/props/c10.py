"""C10 - event detection is sound, complete w.r.t. sampling, ordered and sharp."""

import math

import numpy as np
from hypothesis import strategies as st

from .. import env
from ..core import Facet, Violation
from ..gen import orbits as go
from ..oracles import earth as oe
from ..oracles import shadow as osh
from ..oracles import twobody as tb

US = 10**6
TWO_PI = 2 * math.pi
MU_E = go.MU["Earth"]

RULE = ("Orbits drawn as elements (LEO .. Molniya, e >= 1e-3) or near-Earth TLE sets, propagated by Kepler, "
        "Sgp4, KeplerNum (rk4, forward, on its grid, >= 9 steps) or an Ephem of a Kepler orbit; step 20 s .. "
        "20 min, span 1-4 periods (<= 200 samples), 1-4 simultaneous listeners, frame None / EME2000; "
        "stations are placed near the ground track so that passes occur.")
ASSUMPTIONS = [
    "oracle: the watched quantity g of every listener is recomputed from the cartesian samples by the "
    "harness (z, r.v, wrapped anomaly difference from vector-formula elements, conical shadow of "
    "vf/oracles/shadow.py, r^.s^, and - from the library's ITRF state - range-rate, elevation, elevation "
    "rate and mask value with the geodesy of vf/oracles/earth.py); frame changes (C02) and the Sun's "
    "position (C18) are taken from the library",
    "a sample whose |g| is below the listener's epsilon makes its two intervals unjudged (the sign of an "
    "exact zero is not part of the property); this includes the case where the bisection hands back the "
    "very sample object as the event.  What IS required there (facet tie_on_a_sample): when g is exactly 0.0 on a "
    "sample between two samples of opposite sign, at least one correctly labelled event within 5 us of that "
    "sample, and none elsewhere in those two steps - how many events sit on the tie is left open",
    "completeness is relative to sampling: an even number of crossings inside one step is invisible to "
    "library and model alike; for anomaly listeners the step is kept below 1 rad of anomaly so that the "
    "wrap of the difference at +-pi cannot pass for a crossing",
    "closed forms: Kepler propagator, listener frame = orbit frame, e >= 1e-3, 0.01 <= i <= pi - 0.01",
    "shadow: Sun position from the library; spherical Earth of the library's equatorial radius",
    "KeplerNum is used forward, from its epoch, on its own grid, over >= 9 steps (the C08 known findings "
    "are outside C10's inputs)",
    "through Sgp4 the state is a step function of time (the sgp4 package's Julian date, 40 us): the value of "
    "the watched quantity at a located event is held to 45 us x its rate instead of the bisection's 3 us",
    "restart: a stream may start from a state yielded by an earlier stream (an event state still carrying its "
    "event, or a plain sample) or from an Ephem whose stored points are such states: states of the new stream "
    "carry an event only at a sign change of one of ITS listeners, plain samples carry none",
    "no leap second inside the iterated span (C03: the library's dates do not handle them)",
    "EOP: zero corrections on even shards, real tables (missing policy 'pass' for Date.now()) on odd shards",
]
LEVEL_TEXT = "exploration"
LEVEL_NOTE = "all facets sampled; cases are expensive (0.2-1.5 s), quick tier runs without shrinking"
TECHNIQUE = ("property-based testing (Hypothesis): model of the sampled sign changes, closed-form Kepler event "
             "times, independent conical shadow, metamorphic union / re-use histories")

T0_MJD = 51544


def setup(shard):
    env.eop("zero" if shard % 2 == 0 else "real")
    from beyond.config import config

    # TerminatorListener() calls Date.now(), which the 1973-2017 tables do not cover
    config["eop"]["missing_policy"] = "pass"
    _STATE["shard"] = shard


_STATE = {"shard": 0, "terminator": None}

PENUMBRA_KEY = "C10/penumbra-uses-umbra-half-angle"


def finding_active(key):
    from .. import findings

    findings._load()
    return key in (findings._active or {}).get("C10", ())


def _penumbra_finding(facet, case, kind, msg, data):
    """LightListener('penumbra') builds the penumbra cone with the umbra half-angle.  Pinned to: shadow
    facet, a penumbra event too far from the conical penumbra boundary, *and* lying within 0.01 s of the
    zero of the same cone evaluated with asin((Rs - Rb)/d) - exactly what the library computes."""
    off = (data or {}).get("off_wrong_angle")
    return (facet == "shadow" and kind == "shadow-penumbra" and off is not None and math.isfinite(off)
            and off <= 0.01)


FINDINGS = {PENUMBRA_KEY: _penumbra_finding}

# ------------------------------------------------------------------ generators

LISTENER_KINDS = ["node", "apside", "anomaly", "light", "terminator"]
STATION_KINDS = ["signal", "max", "mask", "radial"]


@st.composite
def kepler_elements(draw, molniya_share=2):
    """LEO .. Molniya: a from 6700 km to 27 000 km, perigee above 200 km, e >= 1e-3."""
    k = draw(st.integers(0, 10))
    if k == 10:
        # near-circular MEO .. GEO, low inclination (eclipses around the equinoxes)
        a = draw(go.uniform(1.2e7, 4.3e7))
        e = 10 ** draw(go.uniform(-3, -1.3))
        i = draw(go.uniform(0.02, 0.3))
    elif k < molniya_share:
        a = draw(go.uniform(2.4e7, 2.7e7))
        e = draw(go.uniform(0.6, 0.74))
        i = draw(st.sampled_from([1.1065, 2.0351])) + draw(go.uniform(-0.05, 0.05))
    if k >= molniya_share and k != 10:
        rp = 6378136.3 + draw(go.uniform(2.5e5, 2.0e6))
        e = 10 ** draw(go.uniform(-3, -0.7)) if k < 8 else draw(go.uniform(0.2, 0.6))
        a = rp / (1 - e)
        retro = draw(st.integers(0, 9)) < 2
        i = draw(go.uniform(math.pi / 2, math.pi - 0.05)) if retro else draw(go.uniform(0.05, math.pi / 2))
    raan = draw(go.uniform(0, TWO_PI))
    argp = draw(go.uniform(0, TWO_PI))
    M = draw(go.uniform(0, TWO_PI))
    nu = tb.E2nu(tb.solve_kepler_E(M, e), e)
    return dict(body="Earth", a=a, e=e, i=i, raan=raan, argp=argp, anom=M, nu=nu)


@st.composite
def tle_elements(draw):
    return dict(i=draw(go.uniform(0.05, 3.0)), raan=draw(go.uniform(0, 6.28)), e=10 ** draw(go.uniform(-3, -1.7)),
                argp=draw(go.uniform(0, 6.28)), M=draw(go.uniform(0, 6.28)), n=draw(go.uniform(11.5, 15.2)),
                bstar=draw(st.sampled_from([0.0, 1e-5, 1e-4])))


def period_of(case):
    if "tle" in case:
        return 86400.0 / case["tle"]["n"]
    return TWO_PI * math.sqrt(case["el"]["a"] ** 3 / go.MU[case.get("body", "Earth")])


def max_anomaly_rate(case, anomaly):
    """rad/s, upper bound over the orbit."""
    if "tle" in case:
        n, e = case["tle"]["n"] * TWO_PI / 86400.0, case["tle"]["e"]
    else:
        n, e = math.sqrt(go.MU[case.get("body", "Earth")] / case["el"]["a"] ** 3), case["el"]["e"]
    if anomaly == "mean":
        return n
    if anomaly == "eccentric":
        return n / (1 - e)
    return n * math.sqrt(1 - e * e) / (1 - e) ** 2 * 1.02  # true anomaly and argument of latitude


@st.composite
def source_spec(draw, props=("kepler", "kepler", "j2", "sgp4", "keplernum", "ephem")):
    prop = draw(st.sampled_from(props))
    case = dict(prop=prop, mjd=draw(st.integers(50000, 57500)), sec=float(draw(st.integers(0, 86399))))
    if prop == "sgp4":
        case["tle"] = draw(tle_elements())
    else:
        case["el"] = draw(kepler_elements(molniya_share=0 if prop == "keplernum" else 2))
    period = period_of(case)
    nmax = 90 if prop == "keplernum" else 200
    periods = min(draw(go.uniform(1.0, 4.0)), nmax * 1200.0 / period)
    if prop == "ephem":
        periods = min(periods, nmax / 18.0 * 0.95)
    smin = max(20.0, periods * period / nmax)
    smax = min(1200.0, period / 2.5)
    if prop == "ephem":
        # an Ephem interpolates (Lagrange, 8 points) between its stored points: the table must resolve the
        # orbit (<= 20 deg of mean motion per point), otherwise the interpolated path itself wanders (C09)
        smax = min(smax, period / 18.0)
        periods = min(periods, nmax * smax / period)
    step = round(math.exp(draw(go.uniform(math.log(smin), math.log(max(smin * 1.01, smax))))), 3)
    if draw(st.integers(0, 3)) == 0:
        step = float(max(20, round(step / 10) * 10))
    n = max(9, min(nmax, int(periods * period / step)))
    case.update(step=step, n=n, offset=0.0 if prop in ("keplernum",) else float(draw(st.integers(0, 600))))
    # leap seconds are not handled by the library's dates (C03): keep them out of the span
    from ..oracles import iers

    span_days = int((600 + (n + 12) * step) // 86400) + 2
    for leap in iers.tables(env.repo()).leap_days(0):
        if case["mjd"] - 1 <= leap <= case["mjd"] + span_days:
            case["mjd"] = leap + 2
    if prop == "ephem":
        case["ephem_native"] = draw(st.booleans())
    return case


@st.composite
def listener_spec(draw, case, kinds):
    kind = draw(st.sampled_from(kinds))
    frame = draw(st.sampled_from([None, None, "EME2000"]))
    spec = dict(kind=kind)
    if kind in ("node", "apside", "light"):
        spec["frame"] = frame
    if kind == "light":
        spec["type"] = draw(st.sampled_from(["umbra", "penumbra"]))
    if kind == "anomaly":
        order = draw(st.permutations(["true", "mean", "eccentric", "aol"]))
        ok = [a for a in order if max_anomaly_rate(case, a) * case["step"] < 1.0]
        if not ok:
            return dict(kind="node", frame=frame)
        spec.update(anomaly=ok[0], value=draw(go.uniform(-math.pi, TWO_PI)), frame=frame)
    if kind == "signal":
        spec["elev"] = draw(st.sampled_from([0.0, 0.0, 0.0873, 0.1745, -0.02]))
    if kind == "radial":
        spec["sight"] = draw(st.booleans())
    return spec


@st.composite
def station_spec(draw, with_mask=None):
    mask = None
    if with_mask is None:
        with_mask = draw(st.booleans())
    if with_mask:
        k = draw(st.integers(3, 8))
        azs = sorted({round(draw(go.uniform(0.05, TWO_PI - 0.05)), 6) for _ in range(k)}) + [TWO_PI]
        mask = [azs, [round(draw(go.uniform(0.0, 0.35)), 6) for _ in azs]]
    return dict(at=draw(go.uniform(0.15, 0.85)), dlat=draw(go.uniform(-6.0, 6.0)), dlon=draw(go.uniform(-8.0, 8.0)),
                alt=float(draw(st.integers(0, 3000))), mask=mask)


@st.composite
def stream_case(draw, shard, tier, kinds=None, nmin=1, nmax=4, station=False, props=None):
    case = draw(source_spec(props) if props else source_spec())
    pool = list(kinds or LISTENER_KINDS)
    if station:
        case["station"] = draw(station_spec())
        pool = pool + STATION_KINDS * 2
        if case["station"]["mask"] is None:
            pool = [k for k in pool if k != "mask"]
    k = draw(st.integers(nmin, nmax))
    case["listeners"] = [draw(listener_spec(case, pool)) for _ in range(k)]
    case["listeners_as"] = draw(st.sampled_from(["list", "list", "tuple", "single"]))
    case["range_as"] = draw(st.sampled_from(["start-stop-step", "start-stop-step", "stop-timedelta", "dates", "dates-list"]))
    return case


# ------------------------------------------------------------------ building library objects


def epoch_of(case):
    from beyond.dates import Date

    return Date(int(case["mjd"]), float(case["sec"]))


def make_source(case):
    """-> (object with .iter(...listeners=...) and .propagate(date), native frame name)"""
    from beyond.dates import timedelta

    from . import c04

    epoch = epoch_of(case)
    prop = case["prop"]
    if prop == "sgp4":
        return c04.tle_orbit(case["tle"], epoch, "Sgp4"), "TEME"
    if prop == "keplernum":
        from beyond.env.solarsystem import get_body
        from beyond.propagators.keplernum import KeplerNum

        return c04.cart_orbit(case["el"], epoch, KeplerNum(timedelta(seconds=case["step"]), get_body("Earth"))), "EME2000"
    from beyond.propagators.kepler import Kepler

    if prop == "j2":
        from beyond.propagators.j2 import J2

        return c04.cart_orbit(case["el"], epoch, J2()), "EME2000"
    if case.get("body", "Earth") != "Earth":
        # Kepler motion around another central body (non-rotating frame centred on it)
        from beyond.orbits import Orbit

        from . import c01

        return Orbit(go.cart_of(case["el"]), epoch, "cartesian", c01.frame_for(case["body"]), Kepler()), "VF" + case["body"]
    orb = c04.cart_orbit(case["el"], epoch, Kepler())
    if prop == "ephem":
        start, stop, step = grid(case)
        if case.get("ephem_native"):
            return orb.ephem(start=start, stop=stop, step=step), "EME2000"
        # a finer table, re-sampled by Ephem.iter(step=...)
        margin = timedelta(seconds=case["step"])
        return orb.ephem(start=start - margin * 5, stop=stop + margin * 5, step=timedelta(seconds=case["step"] / 2)), "EME2000"
    return orb, "EME2000"


def grid(case):
    from beyond.dates import timedelta

    start = epoch_of(case) + timedelta(seconds=case["offset"])
    step = timedelta(seconds=case["step"])
    return start, start + step * case["n"], step


_STA = {}


def _sta_key(case):
    import json

    oc = case.get("station_orbit") or case
    return json.dumps([case["station"], oc.get("el"), oc.get("tle"), oc["mjd"], oc["sec"], oc["offset"],
                       oc["step"], oc["prop"], _n0(oc)], sort_keys=True)


def _n0(case):
    return case.get("n0", case["n"])


def station_of(case):
    """The station of the case: sub-satellite point at a drawn fraction of the span, shifted by the drawn
    offsets.  Coordinates come from the library's own ITRF state (deterministic for a given tree)."""
    if "station" not in case:
        return None, None
    key = _sta_key(case)
    if key in _STA:
        return _STA[key]
    from beyond.dates import timedelta
    from beyond.propagators.kepler import Kepler

    from . import c04, c11

    sp = case["station"]
    oc = case.get("station_orbit") or case  # the orbit whose ground track places the station
    start, stop, step = grid(oc)
    when = start + timedelta(seconds=round(sp["at"] * _n0(oc) * oc["step"]))
    if oc["prop"] == "sgp4":
        sv = c04.tle_orbit(oc["tle"], epoch_of(oc), "Sgp4").propagate(when)
    else:
        sv = c04.cart_orbit(oc["el"], epoch_of(oc), Kepler()).propagate(when)
    p = np.asarray(sv.copy(frame="ITRF", form="cartesian").base, float)[:3]
    lat = math.degrees(math.atan2(p[2], math.hypot(p[0], p[1]))) + sp["dlat"]
    lat = max(-89.0, min(89.0, lat))
    lon = (math.degrees(math.atan2(p[1], p[0])) + sp["dlon"] + 180.0) % 360.0 - 180.0
    lat, lon = round(lat, 6), round(lon, 6)
    frame = c11.station(_STATE["shard"], lat, lon, sp["alt"], mask=sp["mask"])
    site, triad = c11.site_of(lat, lon, sp["alt"])
    _STA[key] = (frame, dict(site=site, triad=triad, mask=sp["mask"]))
    return _STA[key]


def make_listener(spec, case):
    from beyond.propagators import listeners as li

    k = spec["kind"]
    if k == "node":
        return li.NodeListener(frame=spec.get("frame"))
    if k == "apside":
        return li.ApsideListener(frame=spec.get("frame"))
    if k == "anomaly":
        return li.AnomalyListener(spec["value"], spec["anomaly"], frame=spec.get("frame"))
    if k == "light":
        return li.LightListener(spec["type"], frame=spec.get("frame"))
    if k == "terminator":
        # one instance per process: each construction registers a frame (from Date.now())
        if _STATE["terminator"] is None:
            _STATE["terminator"] = li.TerminatorListener()
        return _STATE["terminator"]
    sta, _ = station_of(case)
    if k == "signal":
        return li.StationSignalListener(sta, spec["elev"])
    if k == "max":
        return li.StationMaxListener(sta)
    if k == "mask":
        return li.StationMaskListener(sta)
    if k == "radial":
        return li.RadialVelocityListener(sta, sight=spec["sight"])
    raise ValueError(k)


def make_listeners(case):
    out = []
    for spec in case["listeners"]:
        lis = make_listener(spec, case)
        if any(lis is o for o in out):
            continue  # the shared terminator listener only once
        out.append(lis)
    specs = []
    seen = []
    for spec in case["listeners"]:
        if spec["kind"] == "terminator":
            if "terminator" in seen:
                continue
            seen.append("terminator")
        specs.append(spec)
    return specs, out


# ------------------------------------------------------------------ running and snapshotting a stream


class Item:
    __slots__ = ("label", "lis", "us", "sv", "obj_id", "dup", "obj")

    def __init__(self, o, start, listeners):
        ev = getattr(o, "event", None)
        self.label = None if ev is None else str(ev.info)
        self.lis = None
        if ev is not None:
            for j, lis in enumerate(listeners):
                if ev.listener is lis:
                    self.lis = j
        d = o.date - start
        self.us = (d.days * 86400 + d.seconds) * US + d.microseconds
        self.sv = o.copy()
        self.obj_id = id(o)
        self.obj = o  # the very object that was yielded (a later stream may start from it)
        self.dup = False


def run_stream(source, case, listeners, rng=None):
    start, stop, step = rng or grid(case)
    # the documented spellings of the `listeners` argument: a list, a tuple, or the Listener itself
    how = case.get("listeners_as", "list")
    given = tuple(listeners) if how == "tuple" else (listeners[0] if (how == "single" and len(listeners) == 1) else list(listeners))
    kwargs = dict(listeners=given)
    spelling = case.get("range_as", "start-stop-step")
    if case["prop"] == "ephem" and case.get("ephem_native") and rng is None:
        it = source.iter(**kwargs)
    elif spelling == "stop-timedelta" and case["prop"] != "keplernum":
        it = source.iter(start=start, stop=stop - start, step=step, **kwargs)  # the stop given as a duration
    elif spelling == "dates" and case["prop"] in ("kepler", "j2", "sgp4", "ephem"):
        from beyond.dates import Date

        it = source.iter(dates=Date.range(start, stop, step, inclusive=True), **kwargs)
    elif spelling == "dates-list" and case["prop"] in ("kepler", "j2", "sgp4", "ephem"):
        from beyond.dates import Date

        it = source.iter(dates=list(Date.range(start, stop, step, inclusive=True)), **kwargs)
    else:
        it = source.iter(start=start, stop=stop, step=step, **kwargs)
    return collect(it, start, listeners, 4 * case["n"] + 200)


def collect(it, start, listeners, limit):
    items = []
    for o in it:
        items.append(Item(o, start, listeners))  # (the item keeps the object: ids stay unique)
        if len(items) > limit:
            raise Violation("stream-runaway", f"more than {limit} items")
    # a sample that the bisection returned as the event comes twice (same object): the second
    # occurrence is the sample
    for a, b in zip(items, items[1:]):
        if b.label is not None and b.obj_id == a.obj_id:
            b.dup = True
    return items


def samples_of(items):
    return [k for k, it in enumerate(items) if it.label is None or it.dup]


# ------------------------------------------------------------------ the harness' own g


def cart_in(sv, frame, native):
    if frame is None or frame == native:
        out = sv.copy(form="cartesian")
    else:
        out = sv.copy(frame=frame, form="cartesian")
    return np.asarray(out.base, float)


def sun_pos(sv, frame):
    from beyond.env.solarsystem import get_body

    s = get_body("Sun").propagate(sv.date).copy(frame=frame, form="cartesian")
    return np.asarray(s.base, float)[:3]


def radii():
    from beyond.constants import Earth, Sun

    return Earth.r, Sun.r


def topo_state(sv, geo):
    c = np.asarray(sv.copy(frame="ITRF", form="cartesian").base, float)
    rng, az, el = oe.topo(geo["site"], geo["triad"], c[:3])
    rdot, azdot, eldot = oe.topo_rates_analytic(geo["site"], geo["triad"], c[:3], c[3:])
    return dict(rng=rng, az=az, el=el, rdot=rdot, eldot=eldot)


class G:
    """Watched quantity of one listener, recomputed by the harness.

    value(sv) -> (g, ok) : ok = the listener's own visibility condition at that state
    eps   : below it a sample is 'on the crossing' and its intervals are not judged
    noise : |g| below it counts as zero in the sharpness test
    """

    def __init__(self, spec, case, native):
        self.spec = spec
        self.kind = spec["kind"]
        self.native = native
        self.frame = spec.get("frame")
        self.geo = station_of(case)[1] if self.kind in STATION_KINDS else None
        k = self.kind
        self.eps, self.noise = {
            "node": (1e-3, 1e-6), "apside": (1e-2, 1e-4), "anomaly": (1e-9, 1e-11), "terminator": (1e-9, 1e-13),
            "light": (50.0, 0.0), "signal": (1e-8, 1e-11), "mask": (1e-8, 1e-11), "max": (1e-10, 1e-13),
            "radial": (1e-4, 1e-7),
        }[k]
        self.cond_eps = 1e-8  # on the elevation used by a visibility condition
        self.wrong_angle = False
        self.body = case.get("body", "Earth")
        self.skip_known_band = k == "light" and spec.get("type") == "penumbra" and finding_active(PENUMBRA_KEY)

    def value(self, sv):
        k = self.kind
        if k == "node":
            return cart_in(sv, self.frame, self.native)[2], True
        if k == "apside":
            c = cart_in(sv, self.frame, self.native)
            return float(c[:3] @ c[3:]), True
        if k == "anomaly":
            c = cart_in(sv, self.frame, self.native)
            el = tb.cart2elements(c, go.MU_LIB(self.body))
            a = {"true": el["nu"], "mean": el["M"], "eccentric": el["E"], "aol": el["u"]}[self.spec["anomaly"]]
            d = (a - self.spec["value"] + math.pi) % TWO_PI - math.pi
            return d, abs(d) < 2
        if k == "light":
            frame = self.frame or "MOD"  # the library works in the Sun propagator's own frame when none is given
            c = cart_in(sv, frame, self.native)
            s = sun_pos(sv, frame)
            rb, rs = radii()
            if self.spec["type"] == "umbra":
                return osh.umbra(c[:3], s, rb, rs), True
            if self.wrong_angle:
                return osh.penumbra(c[:3], s, rb, rs, umbra_half_angle=True), True
            g = osh.penumbra(c[:3], s, rb, rs)
            if self.skip_known_band and (g > 0) != (osh.penumbra(c[:3], s, rb, rs, umbra_half_angle=True) > 0):
                # the sample lies between the true penumbra cone and the cone of the listed known
                # finding: its intervals are not judged (returned as 'on the crossing')
                return 0.0, True
            return g, True
        if k == "terminator":
            c = cart_in(sv, None, self.native)
            s = sun_pos(sv, self.native)
            return float(c[:3] @ s) / (np.linalg.norm(c[:3]) * np.linalg.norm(s)), True
        t = topo_state(sv, self.geo)
        self.last = t
        if k == "signal":
            return t["el"] - self.spec["elev"], True
        if k == "max":
            return t["eldot"], (t["el"] > 0 and t["eldot"] <= 0)
        if k == "mask":
            # the mask table is indexed by the counterclockwise azimuth (the frame's theta = -azimuth)
            m = oe.mask_value(self.geo["mask"][0], self.geo["mask"][1], -t["az"])
            return t["el"] - m, t["el"] > 0
        if k == "radial":
            return t["rdot"], (t["el"] > 0 or not self.spec["sight"])
        raise ValueError(k)

    def cond_uncertain(self, sv):
        """The visibility condition sits on its own threshold at this state."""
        if self.kind in ("max", "mask") or (self.kind == "radial" and self.spec["sight"]):
            t = topo_state(sv, self.geo)
            if abs(t["el"]) < self.cond_eps:
                return True
            if self.kind == "max" and abs(t["eldot"]) < self.eps:
                return True
        if self.kind == "anomaly":
            d, _ = self.value(sv)
            return abs(abs(d) - 2) < 1e-6
        return False

    def expected_label(self, before, after, ev_sv):
        """Label the event must carry, from the direction of the crossing (None = not decidable)."""
        k = self.kind
        up = after > before
        if k == "node":
            vz = cart_in(ev_sv, self.frame, self.native)[5]
            return None if abs(vz) < 1e-2 else ("Asc Node" if vz > 0 else "Desc Node")
        if k == "apside":
            return "Periapsis" if up else "Apoapsis"
        if k == "light":
            name = "Umbra" if self.spec["type"] == "umbra" else "Penumbra"
            return f"{name} exit" if up else f"{name} entry"
        if k == "terminator":
            c = cart_in(ev_sv, None, self.native)
            s = sun_pos(ev_sv, self.native)
            if abs(float(c[3:] @ s) / np.linalg.norm(s)) < 1500.0:
                return None  # the library decides on the range-rate to the Sun, which also holds the Sun's motion
            return "Day Terminator" if up else "Night Terminator"
        if k in ("signal", "mask"):
            if k == "signal":
                t = topo_state(ev_sv, self.geo)
                if abs(t["eldot"]) < 1e-7:
                    return None
                return "AOS" if t["eldot"] > 0 else "LOS"
            return "AOS" if up else "LOS"
        if k == "max":
            return "MAX"
        if k == "radial":
            return "Radial Velocity"
        if k == "anomaly":
            return "anomaly"
        return None


def anomaly_label_ok(spec, label):
    txt = "Argument of Latitude" if spec["anomaly"] == "aol" else f"{spec['anomaly'].title()} Anomaly"
    if not label.startswith(txt + " = "):
        return False
    try:
        shown = float(label.split("=")[1])
    except ValueError:
        return False
    d = (shown - math.degrees(spec["value"]) + 180.0) % 360.0 - 180.0
    return abs(d) <= 0.0051 + 1e-9


def describe(case):
    src = case["prop"] + ("" if "tle" in case else f" a={case['el']['a'] / 1e3:.0f}km e={case['el']['e']:.4f}")
    return f"{src}, step {case['step']} s x {case['n']}, listeners {[_short(s) for s in case['listeners']]}"


def _short(spec):
    extra = {k: v for k, v in spec.items() if k != "kind"}
    return spec["kind"] + (str(extra) if extra else "")


# ------------------------------------------------------------------ stream checks


def analyse(case, aspects, source=None, listeners=None, specs=None, items=None):
    """Runs the case and checks the requested aspects of the stream.  Returns (items, stats)."""
    if source is None:
        source, native = make_source(case)
    else:
        native = "TEME" if case["prop"] == "sgp4" else ("EME2000" if case.get("body", "Earth") == "Earth" else "VF" + case["body"])
    if listeners is None:
        specs, listeners = make_listeners(case)
    if items is None:
        items = run_stream(source, case, listeners)
    what = describe(case)
    sidx = samples_of(items)
    if not sidx:
        raise Violation("stream-empty", f"{what}: no sample in the stream")
    gs = [G(spec, case, native) for spec in specs]
    stats = dict(events=sum(1 for it in items if it.label is not None and not it.dup), skipped=0, judged=0,
                 multi=False, worst=0.0)

    # --- ordered: chronological stream, events inside (t_k, t_k+1], samples on the grid
    if "ordered" in aspects:
        for a, b in zip(items, items[1:]):
            if b.us < a.us:
                raise Violation("order-stream", f"{what}: item at {b.us} us (label {b.label}) comes after item at {a.us} us "
                                                f"(label {a.label})")
        step_us = int(round(case["step"] * US))
        native_ephem = case["prop"] == "ephem" and case.get("ephem_native")
        for n, k in enumerate(sidx):
            if abs(items[k].us - n * step_us) > 1:
                raise Violation("order-grid", f"{what}: sample #{n} at {items[k].us} us, grid says {n * step_us}")
        if len(sidx) != case["n"] + 1:
            raise Violation("order-grid", f"{what}: {len(sidx)} samples, grid has {case['n'] + 1}")
        for k, it in enumerate(items):
            if it.label is None or it.dup:
                continue
            prev = [s for s in sidx if s < k]
            nxt = [s for s in sidx if s > k]
            if not prev or not nxt:
                raise Violation("order-outside", f"{what}: event {it.label} at {it.us} us outside the sampled range")
            lo, hi = items[prev[-1]].us, items[nxt[0]].us
            if not (lo < it.us <= hi):
                raise Violation("order-outside", f"{what}: event {it.label} at {it.us} us is not inside ({lo}, {hi}] of the "
                                                 f"samples around it")
            if it.lis is None:
                raise Violation("event-listener", f"{what}: event {it.label} carries a listener that was not given")

    # --- sampling model and labels
    if "model" in aspects or "labels" in aspects:
        fired = {}
        for j, g in enumerate(gs):
            vals = [g.value(items[k].sv) for k in sidx]
            for n in range(len(sidx) - 1):
                (g0, _), (g1, ok1) = vals[n], vals[n + 1]
                between = [it for it in items[sidx[n] + 1:sidx[n + 1]] if it.lis == j and it.label is not None]
                if items[sidx[n + 1]].dup or items[sidx[n]].dup:
                    stats["skipped"] += 1
                    continue
                if not (math.isfinite(g0) and math.isfinite(g1)):
                    raise Violation("non-finite", f"{what}: g of {g.kind} not finite at sample {n}")
                if abs(g0) < g.eps or abs(g1) < g.eps or g.cond_uncertain(items[sidx[n + 1]].sv):
                    stats["skipped"] += 1
                    continue
                stats["judged"] += 1
                expected = (g0 > 0) != (g1 > 0) and ok1
                if "model" in aspects:
                    t0, t1 = items[sidx[n]].us / 1e6, items[sidx[n + 1]].us / 1e6
                    if expected and not between:
                        raise Violation(f"model-missing-{g.kind}",
                                        f"{what}: g of {_short(g.spec)} goes {g0:.6g} -> {g1:.6g} between t = {t0} s and {t1} s "
                                        f"but no event was emitted", listener=g.kind)
                    if not expected and between:
                        raise Violation(f"model-spurious-{g.kind}",
                                        f"{what}: event '{between[0].label}' at t = {between[0].us / 1e6} s although g of "
                                        f"{_short(g.spec)} goes {g0:.6g} -> {g1:.6g} (condition at later sample: {ok1})",
                                        listener=g.kind)
                    if len(between) > 1:
                        raise Violation(f"model-duplicate-{g.kind}",
                                        f"{what}: {len(between)} events of {_short(g.spec)} between t = {t0} s and {t1} s",
                                        listener=g.kind)
                if between:
                    fired[n] = fired.get(n, 0) + 1
                if "labels" in aspects and expected and len(between) == 1:
                    ev = between[0]
                    want = g.expected_label(g0, g1, ev.sv)
                    if want == "anomaly":
                        if not anomaly_label_ok(g.spec, ev.label):
                            raise Violation("label-anomaly", f"{what}: event labelled '{ev.label}' for a crossing of "
                                                             f"{g.spec['anomaly']} = {math.degrees(g.spec['value']):.4f} deg")
                    elif want is not None and ev.label != want:
                        raise Violation(f"label-{g.kind}", f"{what}: event at t = {ev.us / 1e6} s labelled '{ev.label}', the "
                                                           f"crossing ({g0:.6g} -> {g1:.6g}) is '{want}'", listener=g.kind)
        stats["multi"] = any(v > 1 for v in fired.values())
    return items, stats, (source, native, listeners, specs, gs, sidx)


def classes_of(case, stats):
    cls = [f"prop:{case['prop']}", f"nlis:{len(case['listeners'])}"] + sorted({f"L:{s['kind']}" for s in case["listeners"]})
    if case.get("body", "Earth") != "Earth":
        cls.append(f"body:{case['body']}")
    if case.get("listeners_as", "list") != "list":
        cls.append(f"listeners-as:{case['listeners_as']}")
    if case.get("range_as", "start-stop-step") != "start-stop-step":
        cls.append(f"range-as:{case['range_as']}")
    if "el" in case and case["el"]["e"] > 0.5:
        cls.append("molniya")
    if stats.get("multi"):
        cls.append("several-listeners-fire-in-one-step")
    if stats["events"] == 0:
        cls.append("no-event")
    if stats.get("skipped"):
        cls.append("intervals-skipped")
    return cls


def check_model(case):
    _, stats, _ = analyse(case, {"model"})
    return dict(nt=stats["events"] > 0, cls=classes_of(case, stats))


def check_ordered(case):
    _, stats, _ = analyse(case, {"ordered", "model"})
    return dict(nt=stats["events"] > 0, cls=classes_of(case, stats))


def check_labels(case):
    _, stats, _ = analyse(case, {"labels"})
    return dict(nt=stats["events"] > 0, cls=classes_of(case, stats))


def propagate_at(source, case, items, start, us):
    from beyond.dates import timedelta

    return source.propagate(start + timedelta(microseconds=us))


def check_sharp(case):
    from beyond.orbits import Ephem

    items, stats, (source, native, listeners, specs, gs, sidx) = analyse(case, {"ordered"})
    what = describe(case)
    start, stop, step = grid(case)
    prop_src = source
    if case["prop"] == "keplernum":
        # the numerical propagator locates events on the table of its own integration steps
        prop_src = Ephem([items[k].sv for k in sidx])
    events = [it for it in items if it.label is not None and not it.dup]
    worst = 0.0
    last_us = items[sidx[-1]].us
    for ev in events[:8]:
        g = gs[ev.lis]
        lis = listeners[ev.lis]
        lo, hi = max(ev.us - 5, items[sidx[0]].us), min(ev.us + 5, last_us)
        a = propagate_at(prop_src, case, items, start, lo)
        b = propagate_at(prop_src, case, items, start, hi)
        if g.kind == "light":
            # the library's own watched function is a step (+-1) a few metres off the oracle cone:
            # its location against the oracle is the `shadow` facet; here: is it a crossing of that step
            ga, gb = float(lis(a)), float(lis(b))
        else:
            ga, gb = g.value(a)[0], g.value(b)[0]
        if not (math.isfinite(ga) and math.isfinite(gb)):
            raise Violation("non-finite", f"{what}: g not finite around event {ev.label}")
        if ga * gb > 0 and min(abs(ga), abs(gb)) > g.noise:
            raise Violation(f"sharp-{g.kind}", f"{what}: event '{ev.label}' at t = {ev.us / 1e6} s: g = {ga:.6g} 5 us before and "
                                               f"{gb:.6g} 5 us after - no crossing there", listener=g.kind)
    return dict(nt=len(events) > 0, cls=classes_of(case, stats), ratio=worst)


# ------------------------------------------------------------------ several passes over one station


@st.composite
def passes_case(draw, shard, tier):
    """LEO over a mid-latitude station near its ground track, 3-4 revolutions in ONE iteration (several
    passes), step 60-180 s; a RadialVelocityListener(sight=True) is always present (its condition makes
    it skip the samples between the passes), other station listeners are drawn."""
    prop = draw(st.sampled_from(["kepler", "kepler", "sgp4"]))
    case = dict(prop=prop, mjd=draw(st.integers(50000, 57500)), sec=float(draw(st.integers(0, 86399))))
    if prop == "sgp4":
        case["tle"] = dict(i=draw(go.uniform(0.87, 1.75)), raan=draw(go.uniform(0, 6.28)), e=10 ** draw(go.uniform(-3, -2)),
                           argp=draw(go.uniform(0, 6.28)), M=draw(go.uniform(0, 6.28)), n=draw(go.uniform(12.5, 15.0)),
                           bstar=draw(st.sampled_from([0.0, 1e-5, 1e-4])))
    else:
        rp = 6378136.3 + draw(go.uniform(4.5e5, 1.5e6))
        e = 10 ** draw(go.uniform(-3, -1.5))
        M = draw(go.uniform(0, TWO_PI))
        case["el"] = dict(body="Earth", a=rp / (1 - e), e=e, i=draw(go.uniform(0.87, 1.75)), raan=draw(go.uniform(0, TWO_PI)),
                          argp=draw(go.uniform(0, TWO_PI)), anom=M, nu=tb.E2nu(tb.solve_kepler_E(M, e), e))
    period = period_of(case)
    step = float(draw(st.integers(60, 180)))
    n = min(200, int(draw(go.uniform(3.0, 4.0)) * period / step))
    case.update(step=step, n=n, offset=float(draw(st.integers(0, 600))))
    from ..oracles import iers

    for leap in iers.tables(env.repo()).leap_days(0):
        if case["mjd"] - 1 <= leap <= case["mjd"] + 2:
            case["mjd"] = leap + 2
    sta = draw(station_spec())
    # the reference pass early in the span (sometimes at its very beginning: iteration starts in sight)
    sta["at"] = draw(st.sampled_from([0.0, 0.01])) if draw(st.integers(0, 4)) == 0 else draw(go.uniform(0.05, 0.45))
    sta["dlat"], sta["dlon"] = draw(go.uniform(-3.0, 3.0)), draw(go.uniform(-5.0, 5.0))
    case["station"] = sta
    pool = ["signal", "max", "radial"] + (["mask"] if sta["mask"] is not None else [])
    case["listeners"] = [dict(kind="radial", sight=True)] + [draw(listener_spec(case, pool))
                                                              for _ in range(draw(st.integers(0, 2)))]
    return case


def check_passes(case):
    items, stats, (source, native, listeners, specs, gs, sidx) = analyse(case, {"model", "labels"})
    what = describe(case)
    geo = station_of(case)[1]
    # passes seen by the sampling
    els = [topo_state(items[k].sv, geo)["el"] for k in sidx]
    passes = sum(1 for a, b in zip([-1.0] + els, els) if a <= 0 < b)
    # every reported zero-Doppler event is a zero of the range-rate (the 2 us bracket x the range
    # acceleration; 45 us through Sgp4)
    worst = 0.0
    t_res = 45e-6 if case["prop"] == "sgp4" else 3e-6
    for it in items:
        if it.label is None or it.dup or gs[it.lis].kind != "radial":
            continue
        t = topo_state(it.sv, geo)
        c = np.asarray(it.sv.copy(frame="ITRF", form="cartesian").base, float)
        acc = float(np.linalg.norm(c[3:])) ** 2 / max(t["rng"], 1.0) + 10.0
        tol = 1e-4 + t_res * acc
        worst = max(worst, abs(t["rdot"]) / tol)
        if abs(t["rdot"]) > tol:
            raise Violation("sharp-radial", f"{what}: '{it.label}' at t = {it.us / 1e6} s has a range-rate of "
                                            f"{t['rdot']:.6g} m/s (tol {tol:.3g})", listener="radial")
        if gs[it.lis].spec["sight"] and t["el"] < -1e-8:
            raise Violation("model-spurious-radial", f"{what}: '{it.label}' at t = {it.us / 1e6} s while the satellite is "
                                                     f"{t['el']:.4g} rad below the horizon (sight=True)", listener="radial")
    cls = classes_of(case, stats) + [f"passes:{min(passes, 4)}"]
    if els and els[0] > 0:
        cls.append("starts-in-sight")
    return dict(nt=stats["events"] > 0 and passes >= 2, cls=cls, ratio=worst)


# ------------------------------------------------------------------ closed forms (Kepler)


@st.composite
def closed_case(draw, shard, tier):
    case = draw(source_spec(("kepler",)))
    body = draw(st.sampled_from(["Earth", "Earth", "Moon", "Mars"]))
    if body != "Earth":
        # the same kind of orbit around another central body (its own mu and radius)
        el = draw(go.elements(hyperbolic=False, bodies=(body,), emax_ell=0.6, rp_range=(1.1, 4.0)))
        el["e"] = max(el["e"], 1e-3)
        el["a"] = go.RADIUS[body] * 1.1 / (1 - el["e"]) if el["a"] * (1 - el["e"]) < go.RADIUS[body] * 1.05 else el["a"]
        el["i"] = min(max(el["i"], 0.05), math.pi - 0.05)
        M = el["anom"] % TWO_PI
        el.update(anom=M, nu=tb.E2nu(tb.solve_kepler_E(M, el["e"]), el["e"]))
        case.update(el=el, body=body)
        period = period_of(case)
        case["step"] = float(max(20, round(period / draw(st.integers(12, 60)))))
        case["n"] = min(150, int(draw(go.uniform(1.0, 3.0)) * period / case["step"]) + 9)
    k = draw(st.integers(1, 3))
    case["listeners"] = [draw(listener_spec(case, ["node", "apside", "anomaly", "anomaly"])) for _ in range(k)]
    for spec in case["listeners"]:
        spec["frame"] = None
    return case


def closed_form_times(spec, el, t_first, t_last, body="Earth"):
    """Crossing times (s after the epoch) of the listener's quantity for the Kepler orbit whose epoch
    state is the cartesian state of `el` (elements re-derived with the library's mu, which is not
    exactly the generator's)."""
    lib = tb.cart2elements(go.cart_of(el), go.MU_LIB(body))
    a, e, w, M0 = lib["a"], lib["e"], lib["argp"], lib["M"]
    n = math.sqrt(go.MU_LIB(body) / a**3)
    period = TWO_PI / n

    def M_of_nu(nu):
        E = tb.nu2E(nu, e)
        return E - e * math.sin(E)

    if spec["kind"] == "node":
        targets = [M_of_nu(-w), M_of_nu(math.pi - w)]
    elif spec["kind"] == "apside":
        targets = [0.0, math.pi]
    else:
        v = spec["value"]
        an = spec["anomaly"]
        if an == "mean":
            targets = [v]
        elif an == "eccentric":
            targets = [v - e * math.sin(v)]
        elif an == "true":
            targets = [M_of_nu(v)]
        else:
            targets = [M_of_nu(v - w)]
    out = []
    for Mt in targets:
        t = ((Mt - M0) % TWO_PI) / n
        t += math.floor((t_first - t) / period) * period
        while t <= t_last + period:
            out.append(t)
            t += period
    return sorted(out)


def check_closed(case):
    items, stats, (source, native, listeners, specs, gs, sidx) = analyse(case, {"model"})
    what = describe(case)
    off = case["offset"]
    worst = 0.0
    for it in items:
        if it.label is None or it.dup:
            continue
        spec = specs[it.lis]
        t_ev = off + it.us / 1e6
        times = closed_form_times(spec, case["el"], off - 1, t_ev + 1, case.get("body", "Earth"))
        d = min(abs(t_ev - t) for t in times)
        worst = max(worst, d / 20e-6)
        if d > 20e-6:
            raise Violation(f"closed-form-{spec['kind']}", f"{what}: event '{it.label}' at {t_ev:.6f} s after the epoch, "
                                                           f"the nearest closed-form time is {d * 1e6:.1f} us away",
                            listener=spec["kind"])
    return dict(nt=stats["events"] > 0, cls=classes_of(case, stats), ratio=worst)


# ------------------------------------------------------------------ shadow


@st.composite
def shadow_case(draw, shard, tier):
    case = draw(source_spec(("kepler", "kepler", "sgp4")))
    if "el" in case and case["el"]["a"] > 1.1e7 and case["el"]["e"] < 0.1:
        # high circular orbits are eclipsed only around the equinoxes
        year = draw(st.integers(0, 14))
        case["mjd"] = 51623 + int(365.25 * year) + draw(st.sampled_from([0, 186])) + draw(st.integers(-12, 12))
    k = draw(st.integers(0, 2))
    frames = [None, None, "EME2000"]
    case["listeners"] = [dict(kind="light", type=t, frame=frames[k]) for t in draw(st.sampled_from(
        [["umbra"], ["penumbra"], ["umbra", "penumbra"]]))]
    return case


def oracle_zero(g, source, start, us, half_s):
    """Zero of the oracle function nearest to `us`, searched within +-half_s seconds (None if the
    function does not change sign there)."""
    from beyond.dates import timedelta

    def f(t_us):
        return g.value(source.propagate(start + timedelta(microseconds=int(t_us))))[0]

    lo, hi = us - int(half_s * US), us + int(half_s * US)
    flo, fhi = f(lo), f(hi)
    if flo * fhi > 0:
        return None
    for _ in range(60):
        mid = (lo + hi) // 2
        fm = f(mid)
        if (fm > 0) == (flo > 0):
            lo, flo = mid, fm
        else:
            hi, fhi = mid, fm
        if hi - lo <= 20:
            break
    return 0.5 * (lo + hi)


def check_shadow(case):
    import copy

    from .. import findings

    items, stats, (source, native, listeners, specs, gs, sidx) = analyse(case, {"ordered"})
    what = describe(case)
    start, stop, step = grid(case)
    worst = 0.0
    known = {}
    events = [it for it in items if it.label is not None and not it.dup]
    for ev in events[:12]:
        g = gs[ev.lis]
        kind = f"shadow-{g.spec['type']}"
        tol = 0.01 if g.spec["type"] == "umbra" else 0.5
        g.skip_known_band = False
        z = oracle_zero(g, source, start, ev.us, 0.04 if g.spec["type"] == "umbra" else 5.0)
        d = None if z is None else abs(z - ev.us) / 1e6
        if d is not None and d <= tol:
            worst = max(worst, d / tol)
            continue
        data = dict(type=g.spec["type"], event_s=ev.us / 1e6, off_cone=d)
        if g.spec["type"] == "penumbra":
            # distance to the zero of the cone a listed known finding describes (umbra half-angle)
            gw = copy.copy(g)
            gw.wrong_angle = True
            zw = oracle_zero(gw, source, start, ev.us, 0.05)
            data["off_wrong_angle"] = None if zw is None else abs(zw - ev.us) / 1e6
        if z is None:
            msg = (f"{what}: '{ev.label}' at t = {ev.us / 1e6} s: the conical {g.spec['type']} function has no zero "
                   f"within the search window")
        else:
            msg = (f"{what}: '{ev.label}' at t = {ev.us / 1e6} s is {d:.4f} s from the zero of the conical "
                   f"{g.spec['type']} function (tol {tol} s)")
        key = findings.match("C10", "shadow", case, kind, msg, data)
        if key is None:
            raise Violation(kind, msg, **data)
        k = known.setdefault(key, dict(n=0, example=dict(kind=kind, msg=msg, data=data)))
        k["n"] += 1
    cls = classes_of(case, stats)
    if "el" in case:
        cls.append("a>15000km" if case["el"]["a"] > 1.5e7 else "a<15000km")
    if known:
        cls.append("known-finding-event")
    return dict(nt=len(events) > 0, cls=cls, ratio=worst, known=known)


# ------------------------------------------------------------------ visibility stream


@st.composite
def visibility_case(draw, shard, tier):
    case = draw(source_spec(("kepler", "kepler", "sgp4")))
    case["station"] = draw(station_spec())
    case["listeners"] = []
    # listeners of the caller's own next to the station's: another kind, or the station's own signal listener at a
    # non-zero elevation threshold (its documented `elev` argument) - the horizon events must still all be there
    case["extra"] = draw(st.sampled_from([[], [], [dict(kind="node", frame=None)], [dict(kind="signal", elev=0.17)],
                                          [dict(kind="signal", elev=0.09), dict(kind="node", frame=None)]]))
    return case


def check_visibility(case):
    source, native = make_source(case)
    sta, geo = station_of(case)
    what = describe(case) + f" station {sta.name} mask={'yes' if geo['mask'] else 'no'}"
    start, stop, step = grid(case)
    extra = [make_listener(s, case) for s in case["extra"]]
    kwargs = dict(start=start, stop=stop, step=step, events=extra if extra else True)
    got = []
    for p in sta.visibility(source, **kwargs):
        ev = getattr(p, "event", None)
        d = p.date - start
        us = (d.days * 86400 + d.seconds) * US + d.microseconds
        if str(p.frame) != sta.name or p.form.name != "spherical":
            raise Violation("visibility-form", f"{what}: point in frame {p.frame} / form {p.form.name}")
        got.append(dict(us=us, label=None if ev is None else str(ev.info), phi=float(p.phi), phi_dot=float(p.phi_dot),
                        kind=None if ev is None else type(ev).__name__, sv=p.copy(),
                        elev=0.0 if ev is None else float(getattr(ev.listener, "elev", 0.0) or 0.0)))
    for a, b in zip(got, got[1:]):
        if b["us"] < a["us"]:
            raise Violation("order-stream", f"{what}: visibility stream goes back in time at {b['us']} us")
    step_us = int(round(case["step"] * US))
    # oracle elevation of every grid sample
    samples = {}
    for n in range(case["n"] + 1):
        sv = source.propagate(start + step * n)
        samples[n * step_us] = topo_state(sv, geo)
    got_samples = {}
    events = []
    for it in got:
        if it["label"] is None:
            got_samples[it["us"]] = it
        else:
            events.append(it)
    worst = 0.0
    for us, t in samples.items():
        if abs(t["el"]) < 1e-8:
            continue
        near = [u for u in got_samples if abs(u - us) <= 1]
        if t["el"] > 0 and not near:
            # a sample that is also the located event is yielded once, as the event
            if any(abs(e["us"] - us) <= 1 for e in events):
                continue
            raise Violation("visibility-sample-missing", f"{what}: sample at t = {us / 1e6} s has elevation {t['el']:.6g} rad "
                                                         f"but is not in the stream")
        if t["el"] < 0 and near:
            raise Violation("visibility-sample-below", f"{what}: sample at t = {us / 1e6} s (elevation {t['el']:.6g} rad) is in "
                                                       f"the stream")
    for us in got_samples:
        if not any(abs(us - u) <= 1 for u in samples):
            raise Violation("visibility-off-grid", f"{what}: non-event point at {us} us is not a grid sample")
    # events: AOS / LOS at zero elevation, MAX at zero elevation rate (library's own value and the oracle's)
    # time resolution of the located instant: the bisection's 2 us bracket; through Sgp4 the state is a
    # step function of time (the sgp4 package works on a Julian date held in a double: 40 us)
    t_res = 45e-6 if case["prop"] == "sgp4" else 3e-6
    n_aos = n_los = n_max = 0
    for e in events:
        t = topo_state(e["sv"], geo)
        if e["kind"] == "SignalEvent":
            thr = e.get("elev", 0.0)          # the threshold of the listener that raised it (0 = the station's own)
            if thr == 0.0:
                n_aos += e["label"] == "AOS"
                n_los += e["label"] == "LOS"
            tol_el = 1e-6 + (t_res - 3e-6) * abs(t["eldot"])
            worst = max(worst, abs(t["el"] - thr) / tol_el, abs(e["phi"] - thr) / tol_el)
            if abs(t["el"] - thr) > tol_el or abs(e["phi"] - thr) > tol_el:
                raise Violation("visibility-aos-los", f"{what}: {e['label']} (threshold {thr:.3g} rad) at t = {e['us'] / 1e6} s "
                                                      f"has elevation {e['phi']:.3g} rad (oracle {t['el']:.3g})")
            want = "AOS" if t["eldot"] > 0 else "LOS"
            if abs(t["eldot"]) > 1e-7 and e["label"] != want:
                raise Violation("label-signal", f"{what}: {e['label']} at t = {e['us'] / 1e6} s while the elevation rate is "
                                                f"{t['eldot']:.3g} rad/s")
        elif e["kind"] == "MaxEvent":
            n_max += 1
            # the bisection brackets the zero of the elevation rate within 2 us; close to a zenith pass the
            # rate flips arbitrarily fast: the residual rate is bounded by 3 us x |d2(el)/dt2|
            from beyond.dates import timedelta

            when = start + timedelta(microseconds=e["us"])
            h = timedelta(microseconds=2000)
            acc = (topo_state(source.propagate(when + h), geo)["eldot"]
                   - topo_state(source.propagate(when - h), geo)["eldot"]) / 4e-3
            tol_max = 1e-7 + t_res * abs(acc)
            worst = max(worst, abs(t["eldot"]) / tol_max, abs(e["phi_dot"]) / tol_max)
            if abs(t["eldot"]) > tol_max or abs(e["phi_dot"]) > tol_max:
                raise Violation("visibility-max", f"{what}: MAX at t = {e['us'] / 1e6} s has elevation rate {e['phi_dot']:.3g} "
                                                  f"rad/s (oracle {t['eldot']:.3g}, tol {tol_max:.3g})")
            if t["el"] < -1e-8:
                raise Violation("visibility-max", f"{what}: MAX at t = {e['us'] / 1e6} s below the horizon ({t['el']:.3g} rad)")
        elif e["kind"] == "MaskEvent":
            m = oe.mask_value(geo["mask"][0], geo["mask"][1], -t["az"])
            worst = max(worst, abs(t["el"] - m) / 1e-6)
            if abs(t["el"] - m) > 1e-6:
                raise Violation("visibility-mask", f"{what}: mask {e['label']} at t = {e['us'] / 1e6} s is {t['el'] - m:.3g} rad "
                                                   f"from the mask")
        elif e["kind"] == "NodeEvent":
            if t["el"] < -1e-8:
                raise Violation("visibility-foreign-event", f"{what}: {e['label']} below the horizon ({t['el']:.3g} rad) is in "
                                                            f"the visibility stream")
        else:
            raise Violation("visibility-foreign-event", f"{what}: unexpected event {e['kind']} '{e['label']}'")
    # every horizon crossing between two samples has its AOS / LOS, every pass its MAX
    keys = sorted(samples)
    exp_aos = exp_los = exp_max = 0
    for u0, u1 in zip(keys, keys[1:]):
        e0, e1 = samples[u0], samples[u1]
        if abs(e0["el"]) < 1e-8 or abs(e1["el"]) < 1e-8:
            exp_aos = exp_los = None
            break
        if e0["el"] < 0 < e1["el"]:
            exp_aos += 1
        if e1["el"] < 0 < e0["el"]:
            exp_los += 1
    if exp_aos is not None and (exp_aos, exp_los) != (n_aos, n_los):
        raise Violation("visibility-aos-los-count", f"{what}: {n_aos} AOS / {n_los} LOS in the stream, the sampled elevation "
                                                    f"crosses the horizon {exp_aos} times upwards / {exp_los} downwards")
    cls = [f"prop:{case['prop']}", "mask" if geo["mask"] else "no-mask", f"passes:{min(n_aos + n_los, 4) // 2}"]
    if case["extra"]:
        cls.append("extra-listener")
    return dict(nt=len(events) > 0, cls=cls, ratio=worst)


# ------------------------------------------------------------------ union


def event_list(items):
    return [(it.us, it.label, it.lis) for it in items if it.label is not None and not it.dup]


def check_union(case):
    source, native = make_source(case)
    specs, listeners = make_listeners(case)
    what = describe(case)
    together = run_stream(source, case, listeners)
    merged = []
    for j, lis in enumerate(listeners):
        src_j, _ = make_source(case)
        alone = run_stream(src_j, case, [lis])
        merged += [(us, label, j) for us, label, _ in event_list(alone)]
    got = event_list(together)
    if sorted(got) != sorted(merged):
        only_t = sorted(set(got) - set(merged))[:3]
        only_m = sorted(set(merged) - set(got))[:3]
        raise Violation("union", f"{what}: events with all listeners together differ from the merge of the single-listener "
                                 f"runs; only together: {only_t}; only alone: {only_m}")
    if [g[0] for g in got] != sorted(g[0] for g in got):
        raise Violation("order-stream", f"{what}: events not in chronological order with all listeners together")
    n_samples = len(samples_of(together))
    if n_samples != case["n"] + 1:
        raise Violation("order-grid", f"{what}: {n_samples} samples, grid has {case['n'] + 1}")
    stats = dict(events=len(got), multi=False, skipped=0)
    return dict(nt=len(got) > 0 and len(listeners) > 1, cls=classes_of(case, stats))


# ------------------------------------------------------------------ re-use histories


@st.composite
def reuse_case(draw, shard, tier):
    case = draw(stream_case(shard, tier, nmin=1, nmax=3, props=("kepler", "kepler", "sgp4", "ephem")))
    case["ephem_native"] = False
    n = case["n"]
    ops = []
    for _ in range(draw(st.integers(2, 4))):
        lo = draw(st.integers(0, max(0, n - 9)))
        hi = draw(st.integers(lo + 4, n))
        ops.append(dict(lo=lo, hi=hi) if draw(st.integers(0, 2)) else dict(lo=0, hi=n))
        # one iteration in three runs the other way in time (from sample hi down to sample lo) with the same objects
        ops[-1]["rev"] = draw(st.integers(0, 2)) == 0
    case["ops"] = [dict(lo=0, hi=n, rev=draw(st.integers(0, 5)) == 0)] + ops + [dict(lo=0, hi=n)]
    case["clone_listeners"] = draw(st.sampled_from(["none", "copy", "deepcopy", "pickle", "deepcopy"]))
    # between two iterations the caller changes a listener in place (threshold, anomaly value, light type, frame)
    case["retune"] = dict(at=draw(st.integers(1, 3)), value=draw(go.uniform(-math.pi, math.pi)),
                          elev=draw(st.sampled_from([0.0, 0.0873, 0.1745])), type=draw(st.sampled_from(["umbra", "penumbra"])),
                          frame=draw(st.sampled_from([None, "EME2000"]))) if draw(st.booleans()) else None
    if case["retune"]:
        # make sure a listener with something to change is there
        case["listeners"][0] = draw(listener_spec(case, ["anomaly", "anomaly", "light", "apside"]))
    return case


def check_reuse(case):
    from beyond.dates import timedelta

    what = describe(case)
    source, native = make_source(case)
    specs, listeners = make_listeners(case)
    start, stop, step = grid(case)
    seen = {}
    total = 0
    retuned = False
    specs = [dict(x) for x in specs]
    for k, op in enumerate(case["ops"]):
        if k == 1 and case.get("clone_listeners", "none") != "none" and not any(sp["kind"] in STATION_KINDS + ["terminator"]
                                                                                 for sp in specs):
            # from the second iteration on, clones of the (already used) listener objects serve
            from ..gen import dates as gd

            listeners = [gd.clone(x, case["clone_listeners"]) for x in listeners]
        rt = case.get("retune")
        if rt and k == rt["at"]:
            for spec, lis in zip(specs, listeners):
                if spec["kind"] == "anomaly":
                    lis.value = spec["value"] = rt["value"]
                elif spec["kind"] == "signal":
                    lis.elev = spec["elev"] = rt["elev"]
                elif spec["kind"] == "light":
                    lis.type = spec["type"] = rt["type"]
                elif spec["kind"] in ("node", "apside"):
                    lis.frame = spec["frame"] = rt["frame"]
            case = dict(case, listeners=[dict(x) for x in specs])
            retuned = True
        rng = (start + step * op["lo"], start + step * op["hi"], step)
        sub = dict(case, n=op["hi"] - op["lo"], n0=case["n"])
        if op.get("rev"):
            rng = (rng[1], rng[0], timedelta(seconds=-step.total_seconds()))
            sub["range_as"] = "start-stop-step"
        items = run_stream(source, sub, listeners, rng=rng)
        base = op["lo"] * int(round(case["step"] * US))
        stream = [(it.us + base, it.label, it.lis) for it in items]
        total += sum(1 for s in stream if s[1] is not None)
        # reference: fresh listener objects and a fresh source
        src2, _ = make_source(case)
        _, fresh = make_listeners(case)
        ref_items = run_stream(src2, sub, fresh, rng=rng)
        ref = [(it.us + base, it.label, it.lis) for it in ref_items]
        if stream != ref:
            diff = [(a, b) for a, b in zip(stream, ref) if a != b][:2]
            raise Violation("reuse-differs", f"{what}: iteration #{k} over samples {op['lo']}..{op['hi']} with re-used listener "
                                             f"objects gives {len(stream)} items, fresh listeners give {len(ref)}; first "
                                             f"differences {diff}")
        key = (op["lo"], op["hi"], retuned, bool(op.get("rev")))
        if key in seen and seen[key] != stream:
            raise Violation("reuse-not-repeatable", f"{what}: iteration #{k} over samples {op['lo']}..{op['hi']} differs from the "
                                                    f"earlier iteration over the same range")
        seen[key] = stream
        if stream and stream[0][1] is not None:
            raise Violation("reuse-leak", f"{what}: iteration #{k} starts with event {stream[0][1]} before its first sample")
    stats = dict(events=total, multi=False, skipped=0)
    return dict(nt=total > 0, cls=classes_of(case, stats) + [f"ops:{len(case['ops'])}"]
                + ([f"listeners-cloned:{case['clone_listeners']}"] if case.get("clone_listeners", "none") != "none" else [])
                + (["listener-changed-in-place"] if retuned else [])
                + (["direction-changes-between-iterations"] if len({bool(o.get("rev")) for o in case["ops"]}) == 2 else []))


# ------------------------------------------------------------------ the same listeners serve different orbits


@st.composite
def reuse_sources_case(draw, shard, tier):
    """The same listener objects (station listeners included) are handed, one iteration after the other,
    to 2-3 DIFFERENT trajectories sampled on the SAME date grid (or a shifted one)."""
    base = draw(passes_case(shard, tier))
    base["n"] = min(base["n"], 90)
    orbit_keys = ("prop", "el", "tle")
    variants = [{k: base[k] for k in orbit_keys if k in base}]
    for _ in range(draw(st.integers(1, 2))):
        how = draw(st.sampled_from(["phase", "plane", "other"]))
        v = dict(variants[0])
        if how == "other" or ("el" not in v and how != "phase"):
            other = draw(passes_case(shard, tier))
            v = {k: other[k] for k in orbit_keys if k in other}
        elif "el" in v:
            el = dict(v["el"])
            if how == "phase":
                M = (el["anom"] + draw(go.uniform(0.3, 6.0))) % TWO_PI
                el.update(anom=M, nu=tb.E2nu(tb.solve_kepler_E(M, el["e"]), el["e"]))
            else:
                el["raan"] = (el["raan"] + draw(go.uniform(0.2, 1.0))) % TWO_PI
            v["el"] = el
            v["prop"] = draw(st.sampled_from(["kepler", "ephem"]))
        else:
            tle = dict(v["tle"])
            tle["M"] = (tle["M"] + draw(go.uniform(0.3, 6.0))) % 6.28
            v["tle"] = tle
        variants.append(v)
    pool = ["signal", "signal", "max", "radial", "node", "apside", "light"] + (["mask"] if base["station"]["mask"] else [])
    base["listeners"] = [dict(kind="signal", elev=0.0)] + [draw(listener_spec(base, pool)) for _ in range(draw(st.integers(0, 2)))]
    nv = len(variants)
    runs = [dict(v=0, shift=0)]
    for _ in range(draw(st.integers(2, 4))):
        runs.append(dict(v=draw(st.integers(0, nv - 1)), shift=draw(st.sampled_from([0, 0, 0, 1, 7]))))
    if draw(st.booleans()):
        runs = runs[::-1]
    if len({r["v"] for r in runs}) == 1:
        runs.append(dict(v=(runs[0]["v"] + 1) % nv, shift=0))
    base["variants"] = variants
    base["runs"] = runs
    base["ephem_native"] = False
    return base


def check_reuse_sources(case):
    what = describe(case) + f" over {len(case['variants'])} trajectories"
    station_orbit = {k: case[k] for k in ("prop", "el", "tle", "mjd", "sec", "offset", "step", "n") if k in case}
    specs = listeners = None
    total = 0
    served = []
    for k, run in enumerate(case["runs"]):
        v = case["variants"][run["v"]]
        vcase = {kk: vv for kk, vv in case.items() if kk not in ("el", "tle", "prop", "variants", "runs")}
        vcase.update(v, station_orbit=station_orbit, offset=case["offset"] + run["shift"] * case["step"])
        if listeners is None:
            specs, listeners = make_listeners(vcase)
        source, native = make_source(vcase)
        items = run_stream(source, vcase, listeners)
        stream = [(it.us, it.label, it.lis) for it in items]
        src2, _ = make_source(vcase)
        _, fresh = make_listeners(vcase)
        ref = [(it.us, it.label, it.lis) for it in run_stream(src2, vcase, fresh)]
        served.append((run["v"], run["shift"]))
        if stream != ref:
            a = [x for x in stream if x[1] is not None]
            b = [x for x in ref if x[1] is not None]
            raise Violation("reuse-other-trajectory",
                            f"{what}: iteration #{k} (trajectory, grid shift) = {served[-1]} after {served[:-1]} with the "
                            f"re-used listener objects gives events {a[:4]}, fresh listener objects give {b[:4]}",
                            run=k)
        # the stream itself against the sampling model, and zero elevation at every AOS / LOS
        _, stats, (_, _, _, _, gs, sidx) = analyse(vcase, {"ordered", "model", "labels"}, source=source, listeners=listeners,
                                                    specs=specs, items=items)
        geo = station_of(vcase)[1]
        t_res = 45e-6 if vcase["prop"] == "sgp4" else 3e-6
        for it in items:
            if it.label is None or it.dup or gs[it.lis].kind != "signal":
                continue
            t = topo_state(it.sv, geo)
            g = t["el"] - gs[it.lis].spec["elev"]
            if abs(g) > 1e-6 + t_res * abs(t["eldot"]):
                raise Violation("reuse-aos-los-elevation", f"{what}: iteration #{k}: {it.label} at t = {it.us / 1e6} s with the "
                                                           f"satellite {g:.4g} rad from the threshold")
        total += stats["events"]
    stats = dict(events=total, multi=False, skipped=0)
    return dict(nt=total > 0, cls=classes_of(case, stats) + [f"trajectories:{len(case['variants'])}", f"runs:{len(case['runs'])}"]
                + (["shifted-grid"] if any(r["shift"] for r in case["runs"]) else []))


# ------------------------------------------------------------------ several satellites followed together from one station


@st.composite
def lockstep_case(draw, shard, tier):
    """2-3 DIFFERENT trajectories watched from the same station over the same date grid, each with its OWN listener
    objects, the iterations advanced in turns (one item each, or a drawn pattern)."""
    base = draw(reuse_sources_case(shard, tier))
    base["pattern"] = draw(st.lists(st.integers(1, 3), min_size=1, max_size=4))
    base["chained"] = draw(st.booleans())
    return base


def check_lockstep(case):
    what = describe(case) + f" with {len(case['variants'])} trajectories followed together"
    station_orbit = {k: case[k] for k in ("prop", "el", "tle", "mjd", "sec", "offset", "step", "n") if k in case}
    vcases = []
    for v in case["variants"]:
        vc = {kk: vv for kk, vv in case.items() if kk not in ("el", "tle", "prop", "variants", "runs")}
        vc.update(v, station_orbit=station_orbit, listeners_as="list", range_as="start-stop-step")
        vcases.append(vc)
    solo = []
    for vc in vcases:
        src, _ = make_source(vc)
        _, lis = make_listeners(vc)
        solo.append([(it.us, it.label, it.lis) for it in run_stream(src, vc, lis)])
    start, stop, step = grid(vcases[0])
    gens = []
    for vc in vcases:
        src, _ = make_source(vc)
        _, lis = make_listeners(vc)
        gens.append((src.iter(start=start, stop=stop, step=step, listeners=list(lis)), lis))
    got = [[] for _ in gens]
    alive = [True] * len(gens)
    pattern = case.get("pattern") or [1]
    turn = 0
    while any(alive):
        j = turn % len(gens)
        for _ in range(pattern[(turn // len(gens)) % len(pattern)]):
            if not alive[j]:
                break
            o = next(gens[j][0], None)
            if o is None:
                alive[j] = False
                break
            it = Item(o, start, gens[j][1])
            got[j].append((it.us, it.label, it.lis))
        turn += 1
        if turn > 20000:
            raise Violation("stream-runaway", f"{what}: iterations advanced in turns do not end")
    for j in range(len(gens)):
        if got[j] != solo[j]:
            a = [x for x in got[j] if x[1] is not None]
            b = [x for x in solo[j] if x[1] is not None]
            raise Violation("followed-together", f"{what}: trajectory #{j} followed in turns with the others gives {len(got[j])} "
                                                  f"items, events {a[:4]}; followed alone {len(solo[j])} items, events {b[:4]}",
                            trajectory=j)
    n_ev = sum(1 for g in got for x in g if x[1] is not None)
    cls = classes_of(case, dict(events=n_ev, multi=False, skipped=0)) + [f"trajectories:{len(gens)}"]
    if case.get("chained") and len(vcases) >= 2:
        # chained windows: trajectory B watched (fresh listeners) from the very date at which the watch of A ended
        vb = dict(vcases[1], offset=vcases[1]["offset"] + (vcases[1]["n"] - 0) * vcases[1]["step"])
        srcb, _ = make_source(vb)
        _, lisb = make_listeners(vb)
        ref = [(it.us, it.label, it.lis) for it in run_stream(srcb, vb, lisb)]
        srca, _ = make_source(vcases[0])
        _, lisa = make_listeners(vcases[0])
        run_stream(srca, vcases[0], lisa)
        srcb2, _ = make_source(vb)
        _, lisb2 = make_listeners(vb)
        after = [(it.us, it.label, it.lis) for it in run_stream(srcb2, vb, lisb2)]
        if after != ref:
            raise Violation("followed-after", f"{what}: trajectory #1 watched from the date where the watch of #0 ended gives "
                                              f"{[x for x in after if x[1] is not None][:4]}, without that earlier watch "
                                              f"{[x for x in ref if x[1] is not None][:4]}")
        cls.append("chained-window")
    return dict(nt=n_ev > 0, cls=cls)


# ------------------------------------------------------------------ find_event / events_iterator


@st.composite
def find_case(draw, shard, tier):
    case = draw(stream_case(shard, tier, nmin=1, nmax=3, props=("kepler", "kepler", "sgp4", "ephem")))
    case["ephem_native"] = False
    case["n"] = min(case["n"], 120)
    case["queries"] = [dict(kind=draw(st.sampled_from(["iterator", "iterator", "find", "find", "find_twice", "find_event_object",
                                                        "find_in_list"])),
                            pick=draw(st.integers(0, 5)), pick2=draw(st.integers(0, 5)), offset=draw(st.integers(0, 4)),
                            nnames=draw(st.integers(0, 2)), absent=draw(st.integers(0, 5)) == 0)
                       for _ in range(draw(st.integers(2, 4)))]
    return case


def _ev(o, start):
    d = o.date - start
    return ((d.days * 86400 + d.seconds) * US + d.microseconds, str(o.event.info))


def check_find(case):
    from beyond.propagators.listeners import events_iterator, find_event

    what = describe(case)
    source, native = make_source(case)
    specs, listeners = make_listeners(case)
    start, stop, step = grid(case)
    # the full stream: everything that carries an event, in stream order (exactly what the helpers filter)
    full = [(it.us, it.label) for it in run_stream(source, case, listeners) if it.label is not None]
    names = sorted({lab for _, lab in full})

    def fresh_iter():
        src, _ = make_source(case)
        return src.iter(start=start, stop=stop, step=step, listeners=list(listeners))

    nt = False
    for q in case["queries"]:
        pool = names + ["No Such Event"]
        chosen = [] if q["nnames"] == 0 else [pool[(q["pick"] + k * (q["pick2"] + 1)) % len(pool)] for k in range(q["nnames"])]
        if q["absent"]:
            chosen = ["No Such Event"]
        if q["kind"] == "iterator":
            want = [e for e in full if not chosen or e[1] in chosen]
            got = [_ev(o, start) for o in events_iterator(fresh_iter(), *chosen)]
            if got != want:
                raise Violation("events-iterator", f"{what}: events_iterator(..., {chosen}) yields {len(got)} events {got[:3]}, the "
                                                   f"stream holds {len(want)} such events {want[:3]}")
            nt = nt or bool(want)
            continue
        name = chosen[0] if chosen else pool[q["pick"] % len(pool)]
        occ = [e for e in full if e[1] == name]
        k = q["offset"]
        it = fresh_iter()
        if q["kind"] == "find_in_list":
            it = list(it)
        arg = name
        if q["kind"] == "find_event_object" and occ:
            # an Event instance instead of its text
            arg = next(o for o in fresh_iter() if o.event is not None and str(o.event.info) == name).event
        try:
            got = _ev(find_event(it, arg, offset=k), start)
        except RuntimeError:
            got = None
        want = occ[k] if k < len(occ) else None
        if got != want:
            raise Violation("find-event", f"{what}: find_event(..., {name!r}, offset={k}) gives {got}, the stream's occurrence "
                                          f"#{k} of that event is {want} ({len(occ)} occurrences)")
        nt = nt or want is not None
        if q["kind"] == "find_twice" and not isinstance(it, list):
            # a second call on the SAME iterator goes on behind the first result
            try:
                got2 = _ev(find_event(it, name), start)
            except RuntimeError:
                got2 = None
            want2 = occ[k + 1] if (want is not None and k + 1 < len(occ)) else None
            if got2 != want2:
                raise Violation("find-event-second-call", f"{what}: second find_event(..., {name!r}) on the same iterator gives "
                                                          f"{got2}, the stream continues with {want2}")
    stats = dict(events=len(full), multi=False, skipped=0)
    return dict(nt=nt, cls=classes_of(case, stats) + sorted({f"q:{q['kind']}" for q in case["queries"]}))


# ------------------------------------------------------------------ a stream that starts from a yielded state

RESTART_PROPS = ["kepler", "kepler", "j2", "ephem-of-yielded-states", "ephem-of-yielded-states", "keplernum-real-steps"]


@st.composite
def restart_case(draw, shard, tier):
    """First stream: a Kepler orbit with node / apside (+ drawn) listeners.  Second stream: starts from a
    state the first one YIELDED - an event state (it carries its event) or a plain sample - handed to a
    propagator that copies the stored orbit, or from an Ephem whose points are such yielded states."""
    case = draw(source_spec(("kepler",)))
    case["n"] = min(case["n"], 70)
    case["listeners"] = [dict(kind="node", frame=None), dict(kind="apside", frame=None)] + \
        [draw(listener_spec(case, LISTENER_KINDS)) for _ in range(draw(st.integers(0, 1)))]
    case["pick"] = dict(kind=draw(st.sampled_from(["event", "event", "event", "sample"])), index=draw(st.integers(0, 5)))
    case["second"] = dict(prop=draw(st.sampled_from(RESTART_PROPS)), n=draw(st.integers(12, 45)),
                          reuse_listeners=draw(st.booleans()),
                          listeners=[draw(listener_spec(case, ["node", "apside", "anomaly", "light", "terminator"]))
                                     for _ in range(draw(st.integers(1, 2)))])
    return case


def check_restart(case):
    from beyond.dates import timedelta
    from beyond.orbits import Ephem
    from beyond.propagators.listeners import events_iterator, find_event

    what = describe(case)
    source, native = make_source(case)
    specs1, lis1 = make_listeners(case)
    first = run_stream(source, case, lis1)
    events = [it for it in first if it.label is not None and not it.dup]
    plain = [it for it in first if it.label is None]
    pick = case["pick"]
    pool = events if (pick["kind"] == "event" and events) else plain
    k0 = pick["index"] % len(pool)
    picked = pool[k0]
    sec = case["second"]
    sec_listeners = sec["listeners"]
    if sec["prop"] == "ephem-of-yielded-states":
        # the stored points include the node / apside states of the first stream, which sit exactly ON the
        # zero of those quantities (sign of an exact zero is outside the property): watch something else
        def sig(x):
            return (x["kind"], x.get("type"), x.get("anomaly"), x.get("value"))

        watched = {sig(x) for x in case["listeners"]}
        spare = [dict(kind="light", type="umbra", frame=None), dict(kind="light", type="penumbra", frame=None),
                 dict(kind="terminator")]
        def on_a_stored_zero(x):
            # an anomaly of 0 or +-pi is reached exactly AT the apsides (argument of latitude: at the nodes), whose
            # states the first stream may have yielded and which are then stored points of the ephemeris
            return x["kind"] == "anomaly" and abs(math.remainder(x.get("value", 1.0), math.pi)) < 1e-6

        sec_listeners = ([x for x in sec_listeners if sig(x) not in watched and not on_a_stored_zero(x)]
                         or [x for x in spare if sig(x) not in watched][:1])
    case2 = dict(case, listeners=sec_listeners, n=sec["n"], prop="kepler", offset=0.0)
    specs2, lis2 = make_listeners(case2)
    if sec["reuse_listeners"] and sec["prop"] != "ephem-of-yielded-states":
        # the same listener objects as in the first stream where the kinds coincide
        specs2, lis2 = specs1, lis1
        case2["listeners"] = case["listeners"]
    prop2 = sec["prop"]
    if prop2.startswith("keplernum") and "el" in case and case["step"] * max_anomaly_rate(case, "true") > 0.3:
        # the second stream integrates (RK4) with the sampling step as its integration step: beyond 0.3 rad per step the
        # integrated trajectory is no longer the Keplerian orbit whose anomaly rates bound the generated steps
        # (a 950 s step on a 2.2 h orbit: anomalies jump by more than the listener's own 2 rad guard)
        prop2 = "kepler"
    step = timedelta(seconds=case["step"])
    start2 = picked.obj.date
    stale = picked.label
    desc = (f"{what}; second stream ({prop2}, {[_short(x) for x in case2['listeners']]}) starts from the "
            f"{'event state ' + repr(stale) if stale else 'plain sample'} yielded at t = {picked.us / 1e6} s")

    def second_iter():
        if prop2 == "ephem-of-yielded-states":
            # the yielded objects themselves (events included) become the stored points of an Ephem
            def increasing(seq):
                out, last = [], None
                for it in seq:  # an Ephem needs strictly increasing dates (an event may share its sample's date)
                    if not it.dup and (last is None or it.us > last):
                        out.append(it.obj)
                        last = it.us
                return out

            pts = increasing(first[first.index(picked):])[:sec["n"] + 8]
            if len(pts) < 9:
                pts = increasing(first)[-12:]
            eph = Ephem(pts)
            return eph.iter(listeners=list(lis2)), pts[0].date, len(pts)
        orb = picked.obj
        if prop2 == "kepler":
            from beyond.propagators.kepler import Kepler

            orb.propagator = Kepler()
        elif prop2 == "j2":
            from beyond.propagators.j2 import J2

            orb.propagator = J2()
        else:
            from beyond.env.solarsystem import get_body
            from beyond.propagators.keplernum import KeplerNum

            orb.propagator = KeplerNum(step, get_body("Earth"))
            return (orb.iter(start=start2, stop=start2 + step * sec["n"], step=step, listeners=list(lis2), real_steps=True),
                    start2, sec["n"] + 1)
        return orb.iter(start=start2, stop=start2 + step * sec["n"], step=step, listeners=list(lis2)), start2, sec["n"] + 1

    it2, t0, nsamples = second_iter()
    items = collect(it2, t0, lis2, 6 * sec["n"] + 300)
    # soundness first: a state that carries an event must carry one of THIS iteration's listeners
    for it in items:
        if it.label is not None and it.lis is None:
            raise Violation("stale-event", f"{desc}: the state at t = {it.us / 1e6} s carries the event {it.label!r}, which "
                                           f"belongs to no listener of this iteration")
    sidx = samples_of(items)
    if len(sidx) != nsamples:
        raise Violation("order-grid", f"{desc}: {len(sidx)} plain samples in the second stream, {nsamples} expected")
    if items and items[0].label is not None and not items[0].dup:
        raise Violation("reuse-leak", f"{desc}: the second stream starts with the event {items[0].label!r}")
    aspects = {"model", "labels"} | ({"ordered"} if prop2 in ("kepler", "j2") else set())
    for a, b in zip(items, items[1:]):
        if b.us < a.us:
            raise Violation("order-stream", f"{desc}: item at {b.us} us comes after item at {a.us} us")
    _, stats, _ = analyse(case2, aspects, source=source, listeners=lis2, specs=specs2, items=items)
    # the helpers on such a stream: exactly the states that carry an event, in order
    it3, t0b, _ = second_iter()
    got = [_ev(o, t0b) for o in events_iterator(it3)]
    want = [(it.us, it.label) for it in items if it.label is not None]
    if got != want:
        raise Violation("events-iterator", f"{desc}: events_iterator yields {len(got)} states {got[:3]}, the stream holds "
                                           f"{len(want)} states with an event {want[:3]}")
    if want:
        it4, t0c, _ = second_iter()
        f = _ev(find_event(it4, want[0][1]), t0c)
        if f != want[0]:
            raise Violation("find-event", f"{desc}: find_event(..., {want[0][1]!r}) gives {f}, the stream's first is {want[0]}")
    cls = classes_of(case2, stats) + [f"second:{prop2}", "from-event-state" if stale else "from-plain-sample"]
    if sec["reuse_listeners"]:
        cls.append("listeners-reused")
    return dict(nt=stale is not None, cls=cls)


# ------------------------------------------------------------------ backward iteration (negative step)

SWAPS = {"Periapsis": "Apoapsis", "Apoapsis": "Periapsis", "Umbra entry": "Umbra exit", "Umbra exit": "Umbra entry",
         "Penumbra entry": "Penumbra exit", "Penumbra exit": "Penumbra entry", "AOS": "LOS", "LOS": "AOS"}


def _same_angle_label(a, b):
    """'Mean Anomaly = 0.00' and 'Mean Anomaly = 360.00' name the same crossing (the label prints the anomaly found at
    the event, rounded to 0.01 deg)."""
    pa, _, va = a.rpartition(" = ")
    pb, _, vb = b.rpartition(" = ")
    if not pa or pa != pb:
        return False
    try:
        d = (float(va) - float(vb)) % 360.0
    except ValueError:
        return False
    return min(d, 360.0 - d) <= 0.011


@st.composite
def backward_case(draw, shard, tier):
    case = draw(source_spec(("kepler", "kepler", "j2", "ephem")))
    case["n"] = min(case["n"], 120)
    case["ephem_native"] = False
    # listeners whose own condition does not depend on which of the two samples comes later
    case["listeners"] = [draw(listener_spec(case, ["node", "apside", "light", "terminator", "anomaly"]))
                         for _ in range(draw(st.integers(1, 3)))]
    return case


def check_backward(case):
    what = describe(case)
    start, stop, step = grid(case)
    src_f, native = make_source(case)
    specs, lis_f = make_listeners(case)
    forward = run_stream(src_f, case, lis_f)
    src_b, _ = make_source(case)
    _, lis_b = make_listeners(case)
    back = collect(src_b.iter(start=stop, stop=start, step=-step, listeners=list(lis_b)), start, lis_b, 4 * case["n"] + 200)
    # reverse chronological order, the same grid
    for a, b in zip(back, back[1:]):
        if b.us > a.us:
            raise Violation("order-stream", f"{what}: backward stream goes forward in time at {b.us} us (after {a.us} us)",
                            both_events=(a.label is not None and b.label is not None))
    fs = [it.us for it in forward if it.label is None or it.dup]
    bs = [it.us for it in back if it.label is None or it.dup]
    if sorted(bs) != sorted(fs):
        raise Violation("order-grid", f"{what}: the backward stream has {len(bs)} samples, the forward one {len(fs)} (same grid)")
    fe = [it for it in forward if it.label is not None and not it.dup]
    be = [it for it in back if it.label is not None and not it.dup][::-1]
    gs = [G(spec, case, native) for spec in specs]
    # a sample on a zero makes both directions undecidable there
    sv = [it.sv for it in forward if it.label is None or it.dup]
    if any(abs(g.value(x)[0]) < g.eps for g in gs for x in sv):
        return dict(nt=False, cls=classes_of(case, dict(events=len(fe), multi=False, skipped=1)) + ["sample-on-a-zero"])
    # event by event, listener by listener (two listeners may fire at the same microsecond)
    fe = sorted(fe, key=lambda e: (e.lis, e.us))
    be = sorted(be, key=lambda e: (e.lis, e.us))
    if [e.lis for e in fe] != [e.lis for e in be]:
        raise Violation("backward-events", f"{what}: forward iteration finds {[(e.us, e.label) for e in fe][:5]}, backward "
                                           f"iteration over the same span {[(e.us, e.label) for e in be][:5]}")
    for f, b in zip(fe, be):
        if abs(f.us - b.us) > 3:
            raise Violation("backward-date", f"{what}: '{f.label}' at {f.us} us forward, '{b.label}' at {b.us} us backward")
        if f.label != b.label and not _same_angle_label(f.label, b.label):
            kind = gs[f.lis].kind
            data = dict(listener=kind, swapped=SWAPS.get(f.label) == b.label, forward=f.label, backward=b.label)
            msg = (f"{what}: the crossing at t = {f.us / 1e6} s is '{f.label}' when iterating forward and '{b.label}' when "
                   f"iterating backward in time")
            raise Violation("backward-label", msg, **data)
    stats = dict(events=len(fe), multi=False, skipped=0)
    return dict(nt=len(fe) > 0, cls=classes_of(case, stats))


# ------------------------------------------------------------------ a sample exactly on the crossing (tie)


@st.composite
def tie_case(draw, shard, tier):
    """Keplerian elements with argument of perigee 0 and anomaly 0 at a grid date: at that sample z == 0.0 and
    r.v == 0.0 exactly (ascending node and periapsis sit ON the sample)."""
    rp = 6378136.3 + draw(go.uniform(3e5, 3e6))
    e = draw(go.uniform(0.01, 0.4))
    a = rp / (1 - e)
    period = TWO_PI * math.sqrt(a**3 / MU_E)
    case = dict(mjd=draw(st.integers(50000, 57500)), sec=float(draw(st.integers(0, 86399))), a=a, e=e,
                i=draw(go.uniform(0.1, 3.0)), raan=draw(go.uniform(0, TWO_PI)),
                step=float(draw(st.integers(20, int(period / 8)))), before=draw(st.integers(1, 6)), after=draw(st.integers(1, 6)),
                listener=draw(st.sampled_from(["node", "apside"])), frame=draw(st.sampled_from([None, "EME2000"])),
                backward=draw(st.booleans()), source=draw(st.sampled_from(["kepler", "kepler", "ephem-own-points"])),
                listeners_as=draw(st.sampled_from(["list", "single"])))
    from ..oracles import iers

    for leap in iers.tables(env.repo()).leap_days(0):
        if case["mjd"] - 1 <= leap <= case["mjd"] + 1:
            case["mjd"] = leap + 2
    return case


def check_tie(case):
    from beyond.dates import Date, timedelta
    from beyond.orbits import Orbit
    from beyond.propagators import listeners as li
    from beyond.propagators.kepler import Kepler

    epoch = Date(int(case["mjd"]), float(case["sec"]))
    step = timedelta(seconds=case["step"])
    orb = Orbit([case["a"], case["e"], case["i"], case["raan"], 0.0, 0.0], epoch, "keplerian", "EME2000", Kepler())
    lis = (li.NodeListener if case["listener"] == "node" else li.ApsideListener)(frame=case["frame"])
    start, stop = epoch - step * case["before"], epoch + step * case["after"]
    given = lis if case["listeners_as"] == "single" else [lis]
    if case["source"] == "ephem-own-points":
        eph = orb.ephem(start=start - step * 8, stop=stop + step * 8, step=step)
        if case["backward"]:
            it = eph.iter(start=stop, stop=start, step=-step, listeners=given)
        else:
            it = eph.iter(start=start, stop=stop, listeners=given)  # step=None: its own stored points
    elif case["backward"]:
        it = orb.iter(start=stop, stop=start, step=-step, listeners=given)
    else:
        it = orb.iter(start=start, stop=stop, step=step, listeners=given)
    items = collect(it, epoch, [lis], 200)
    what = (f"{case['listener']} listener (frame {case['frame']}), {case['source']}, {'backward' if case['backward'] else 'forward'}, "
            f"step {case['step']} s, a={case['a'] / 1e3:.0f}km e={case['e']:.3f}: the sample at the epoch sits on the crossing")
    on_tie = [it_ for it_ in items if it_.us == 0]
    if not on_tie:
        raise Violation("order-grid", f"{what}: no sample at the epoch in the stream")
    g_tie = float(lis(on_tie[-1].sv))
    vals = {it_.us: float(lis(it_.sv)) for it_ in items if it_.label is None or it_.dup}
    step_us = int(round(case["step"] * US))
    before, after = vals.get(-step_us), vals.get(step_us)
    if g_tie != 0.0 or before is None or after is None or not (before * after < 0):
        # not an exact tie on this platform / for these numbers: nothing to require
        return dict(nt=False, cls=["not-an-exact-zero", f"L:{case['listener']}"])
    # at omega = nu = 0 the satellite moves towards +z for every inclination in (0, pi), and r.v goes from - to +
    want = "Asc Node" if case["listener"] == "node" else "Periapsis"
    events = [it_ for it_ in items if it_.label is not None and it_.lis == 0 and abs(it_.us) <= 5]
    if not events:
        around = [(it_.us, it_.label) for it_ in items if abs(it_.us) <= step_us]
        raise Violation("tie-crossing-lost", f"{what} (g = {before:.4g}, 0.0, {after:.4g} on three consecutive samples) but no "
                                             f"event of that listener within 5 us of it; stream around it: {around}")
    if not any(e_.label == want for e_ in events):
        raise Violation("tie-label", f"{what}: events {[(e_.us, e_.label) for e_ in events]}, none is labelled '{want}'")
    far = [it_ for it_ in items if it_.label is not None and it_.lis == 0 and 5 < abs(it_.us) < step_us]
    if far:
        raise Violation("model-spurious-" + case["listener"], f"{what}: further events {[(f.us, f.label) for f in far]} inside "
                                                              f"the two steps around the tie, where the quantity has one zero")
    return dict(nt=True, cls=[f"L:{case['listener']}", f"source:{case['source']}", "backward" if case["backward"] else "forward",
                              f"events-at-the-tie:{min(len(events), 3)}", f"listeners-as:{case['listeners_as']}"])


# ------------------------------------------------------------------ two iterations of one orbit alive at once


@st.composite
def interleaved_case(draw, shard, tier):
    case = draw(stream_case(shard, tier, nmin=1, nmax=2, props=("kepler", "kepler", "j2", "sgp4", "ephem")))
    case["ephem_native"] = False
    case["n"] = min(case["n"], 60)
    case["listeners_as"] = "list"
    case["range_as"] = "start-stop-step"
    case["second"] = dict(lo=draw(st.integers(0, 20)), listeners=[draw(listener_spec(case, ["node", "apside", "anomaly", "light"]))
                                                                    for _ in range(draw(st.integers(1, 2)))],
                          pattern=draw(st.lists(st.integers(1, 5), min_size=2, max_size=6)))
    return case


def check_interleaved(case):
    """ONE orbit / ephemeris object serves two iterations at once (different ranges, their own listener
    objects), advanced in turns: each stream is the one it gives when run alone."""
    what = describe(case)
    start, stop, step = grid(case)
    sec = case["second"]
    case2 = dict(case, listeners=sec["listeners"])
    lo = min(sec["lo"], max(0, case["n"] - 9))
    rng2 = (start + step * lo, stop, step)
    solo = []
    for cs, rng in ((case, None), (case2, rng2)):
        src, _ = make_source(cs)
        _, lis = make_listeners(cs)
        solo.append([(it.us, it.label, it.lis) for it in run_stream(src, dict(cs, n=cs["n"] - (lo if rng else 0)), lis, rng=rng)])
    source, _ = make_source(case)
    _, lis1 = make_listeners(case)
    _, lis2 = make_listeners(case2)
    if any(a is b for a in lis1 for b in lis2):
        return dict(nt=False, cls=["shared-terminator-listener"])
    g1 = source.iter(start=start, stop=stop, step=step, listeners=list(lis1))
    g2 = source.iter(start=rng2[0], stop=stop, step=step, listeners=list(lis2))
    got = [[], []]
    gens = [(g1, start, lis1), (g2, rng2[0], lis2)]
    alive = [True, True]
    turn = 0
    pattern = sec["pattern"]
    while any(alive):
        j = turn % 2
        for _ in range(pattern[turn % len(pattern)]):
            if not alive[j]:
                break
            o = next(gens[j][0], None)
            if o is None:
                alive[j] = False
                break
            it = Item(o, gens[j][1], gens[j][2])
            got[j].append((it.us, it.label, it.lis))
        turn += 1
        if turn > 2000:
            raise Violation("stream-runaway", f"{what}: interleaved iterations do not end")
    for j in (0, 1):
        if got[j] != solo[j]:
            diff = [(a, b) for a, b in zip(got[j], solo[j]) if a != b][:2]
            raise Violation("interleaved-iterations", f"{what}: stream #{j} advanced in turns with another iteration of the same "
                                                      f"object has {len(got[j])} items, alone {len(solo[j])}; first differences {diff}")
    n_ev = sum(1 for x in got[0] + got[1] if x[1] is not None)
    return dict(nt=n_ev > 0, cls=classes_of(case, dict(events=n_ev, multi=False, skipped=0)))


# ------------------------------------------------------------------ facets

FACETS = [
    Facet("sampling_model", lambda s, t: stream_case(s, t), check_model, setup=setup, shrink_quick=False,
          rule="stream with at least one event", quick=(8, 8), thorough=(32, 60)),
    Facet("sampling_model_stations", lambda s, t: stream_case(s, t, station=True, kinds=["node"], nmax=3,
                                                              props=("kepler", "kepler", "sgp4", "ephem")),
          check_model, setup=setup, shrink_quick=False,
          rule="stream with at least one event", quick=(8, 5), thorough=(32, 25)),
    Facet("station_passes", passes_case, check_passes, setup=setup, shrink_quick=False,
          rule="two or more passes over the station inside one iteration and at least one event",
          quick=(6, 2), thorough=(32, 15)),
    Facet("ordered", lambda s, t: stream_case(s, t, nmin=2, nmax=4), check_ordered, setup=setup, shrink_quick=False,
          rule="stream with at least one event", quick=(6, 6), thorough=(16, 50)),
    Facet("sharp", lambda s, t: stream_case(s, t, nmax=3), check_sharp, setup=setup, shrink_quick=False,
          rule="stream with at least one event", quick=(6, 6), thorough=(16, 50)),
    Facet("labels", lambda s, t: stream_case(s, t, station=True, nmax=3, props=("kepler", "kepler", "sgp4", "ephem")),
          check_labels, setup=setup, shrink_quick=False,
          rule="stream with at least one event", quick=(6, 5), thorough=(32, 25)),
    Facet("closed_form", closed_case, check_closed, setup=setup, shrink_quick=False,
          rule="stream with at least one event", quick=(6, 8), thorough=(16, 60)),
    Facet("shadow", shadow_case, check_shadow, setup=setup, shrink_quick=False,
          rule="at least one umbra / penumbra event", quick=(6, 5), thorough=(16, 50)),
    Facet("visibility_stream", visibility_case, check_visibility, setup=setup, shrink_quick=False,
          rule="at least one AOS / LOS / MAX event", quick=(6, 4), thorough=(32, 25)),
    Facet("union", lambda s, t: stream_case(s, t, nmin=2, nmax=3), check_union, setup=setup, shrink_quick=False,
          rule="two or more listeners and at least one event", quick=(4, 5), thorough=(16, 30)),
    Facet("reuse_other_trajectory", reuse_sources_case, check_reuse_sources, setup=setup, shrink_quick=False,
          rule="the same listener objects served at least two different trajectories and at least one event occurred",
          quick=(6, 2), thorough=(32, 8)),
    Facet("followed_together", lockstep_case, check_lockstep, setup=setup, shrink_quick=False,
          rule="two or three different trajectories watched from one station over the same dates, advanced in turns; at least one event",
          quick=(8, 5), thorough=(32, 12)),
    Facet("find_event", find_case, check_find, setup=setup, shrink_quick=False,
          rule="at least one query that has an answer in the stream", quick=(6, 5), thorough=(16, 40)),
    Facet("restart_from_yielded_state", restart_case, check_restart, setup=setup, shrink_quick=False,
          rule="the second stream starts from a state that carries an event of the first stream",
          quick=(6, 5), thorough=(16, 40)),
    Facet("backward", backward_case, check_backward, setup=setup, shrink_quick=False,
          rule="at least one event in the span", quick=(6, 5), thorough=(16, 40)),
    Facet("tie_on_a_sample", tie_case, check_tie, setup=setup, shrink_quick=False,
          rule="the watched quantity is exactly 0.0 on a sample between two samples of opposite sign",
          quick=(4, 12), thorough=(16, 60)),
    Facet("interleaved", interleaved_case, check_interleaved, setup=setup, shrink_quick=False,
          rule="at least one event in either stream", quick=(4, 5), thorough=(16, 30)),
    Facet("reuse", reuse_case, check_reuse, setup=setup, shrink_quick=False,
          rule="at least one event over the history", quick=(4, 4), thorough=(16, 25)),
]
