"""C04 - results depend on the instant, never on the Date's scale label (metamorphic)."""

import datetime as _dt
import math

import numpy as np
from hypothesis import strategies as st

from .. import env
from ..core import Facet, Violation
from ..gen import dates as gd
from ..gen import orbits as go
from ..oracles import iers
from ..oracles import twobody as tb
from . import c03 as t3

US = gd.US
US_DAY = gd.US_DAY
MU_E = go.MU["Earth"]
OMEGA_E = 7.292115e-5

RULE = ("Every case runs one operation twice on the same instants: once with every date labelled UTC "
        "(reference) and once with the argument date labelled X and the object's epoch labelled Y, "
        "(X, Y) != (UTC, UTC) by construction; instants as in C03 (25 % within 90 s of 0h UTC, "
        "10 % around 1997-02-27 0h); the clock reading in each scale comes from the oracle tables.")
ASSUMPTIONS = [
    "oracle: metamorphic - the all-UTC run of the same library operation; clock readings of the labelled "
    "dates from vf/oracles/iers.py (never from change_scale)",
    "tolerance: 1e-6 m + 1e-12 |r| (+ speed x 1e-10 s) for the exact labels UTC/TAI/TT/GPS; speed x 2 us added "
    "when UT1 or TDB is involved (C03: their conversion resolution is 1 us); speed x 1e-8 day added when a "
    "UT1/TDB epoch goes through TLE text (epoch field resolution)",
    "a UT1 label is not used within 1 s of 0h UTC under real tables (C03's UT1 allowance: the tabulated "
    "UT1-UTC is discontinuous there) - TDB is used instead, by construction",
    "the +-120 s windows around leap seconds are outside the quantifier",
    "EOP configurations per shard: real tables / zero corrections with real leap seconds",
    "clones: in half of the cases every Date of the labelled run (epoch, argument, maneuver, range ends) first goes "
    "through pickle / copy.copy / copy.deepcopy, and the epoch may be the one held by a pickled Orbit; the all-UTC "
    "reference is never cloned",
    "SGP4 orbits are near-Earth (11-15.5 rev/day); KeplerNum: rk4, 60 s, Earth only, |dt| <= 40 min",
    "maneuvers facet: KeplerNum (rk4, 60 s) forward over 15-90 min with 1-2 ImpulsiveMan and an optional "
    "ContinuousMan whose dates carry their own labels; UT1 / TDB burn instants are kept 20 us away from the "
    "step boundaries and rk4 mid-points they are compared with (their resolution is 1 us)",
]
LEVEL_TEXT = "exploration"
LEVEL_NOTE = "all facets sampled; the 35 label pairs are walked uniformly"
TECHNIQUE = "metamorphic property-based testing (Hypothesis): relabel the same instants, compare physical outputs"

CONFIGS = ["real", "zero"]


def setup(shard):
    name = CONFIGS[shard % 2]
    env.eop(name)
    t3._CFG["name"] = name


def lab(us, L):
    """UT1 is replaced by TDB inside the window where C03 grants UT1 its day-change allowance; within
    5 us of 0h UTC an inexact label (1 us resolution) could put the instant on the other UTC day, where
    the day-tabulated EOP legitimately jump: an exact label (TT) is used there."""
    if L == "UT1" and t3.ut1_slack(us, ("UT1",)):
        L = "TDB"
    if L not in iers.EXACT and min(us % US_DAY, US_DAY - us % US_DAY) <= 5:
        L = "TT"
    return L


_CLONE = {"how": "none", "orbit": False}


class cloned:
    """Inside this block (the labelled run, never the all-UTC reference) every Date handed to the library
    first travels through pickle / copy / deepcopy as drawn for the case, and - if drawn - the epoch is
    the one held by the pickled Orbit: a clone is the same instant, the result must not change."""

    def __init__(self, case, on=True):
        self.how = case.get("clone", "none") if on else "none"
        self.orbit = bool(case.get("clone_orbit")) and on

    def __enter__(self):
        _CLONE["how"], _CLONE["orbit"] = self.how, self.orbit

    def __exit__(self, *a):
        _CLONE["how"], _CLONE["orbit"] = "none", False


def with_clone(fn):
    @st.composite
    def wrapped(draw, shard, tier):
        case = draw(fn(shard, tier))
        case["clone"] = draw(gd.clone_modes(none_share=4, arith=True))
        case["clone_orbit"] = draw(st.booleans())
        return case

    return wrapped


def clone_classes(case):
    out = []
    if case.get("clone", "none") != "none":
        out.append(f"clone:{case['clone']}")
        if case.get("clone_orbit"):
            out.append("orbit-pickled")
    return out


def _maybe_pickled(orb):
    if _CLONE["orbit"] and _CLONE["how"] != "none":
        import pickle

        # only the epoch held by the pickled Orbit is taken over: the unpickled Orbit itself is not the same
        # object in other respects (its Form is an equal copy that `form != TLE` rejects, its coordinates may
        # move in the last bit) - value semantics of state vectors are C15's, not a matter of time scales
        orb.date = pickle.loads(pickle.dumps(orb)).date
    return orb


def date_of(us, L):
    return gd.clone(t3.mk(us, lab(us, L)), _CLONE["how"])


@st.composite
def label_pair(draw):
    k = draw(st.integers(1, 35))
    return iers.SCALES[k // 6], iers.SCALES[k % 6]


def inexact(*labels):
    return any(L not in iers.EXACT for L in labels)


def straddle(us, labels):
    r = t3.readings(us)
    return len({r[L] // US_DAY for L in set(labels) | {"UTC"}}) > 1


JD_QUANTUM = 2.0 ** -31 * 86400  # one ulp of a Julian date (2.4e6 days) held in a double: 40 us
JD_TURN = 2 * math.pi * 1.00273790935 * 2.0 ** -31  # Earth rotation during one such ulp [rad]


def _rot3_state(angle):
    """6x6 passive rotation about z applied to position and velocity alike."""
    c, s_ = math.cos(angle), math.sin(angle)
    m = np.array([[c, s_, 0.0], [-s_, c, 0.0], [0.0, 0.0, 1.0]])
    out = np.zeros((6, 6))
    out[:3, :3] = m
    out[3:, 3:] = m
    return out


def compare_states(what, got, ref, dts, rate=0.0, kind="state-differs", extra_pos=0.0, extra_vel=None, mu=None, **data):
    """got / ref: 6-vectors in metres; dts = time resolution (s) granted to the comparison."""
    got = np.asarray(got, float)
    ref = np.asarray(ref, float)
    if not (np.all(np.isfinite(got)) and np.all(np.isfinite(ref))):
        raise Violation("non-finite", f"{what}: {got.tolist()} vs {ref.tolist()}")
    r = float(np.linalg.norm(ref[:3]))
    v = float(np.linalg.norm(ref[3:]))
    acc = (MU_E / max(r, 6.0e6) ** 2) if mu is None else mu / max(r, 1.0) ** 2
    dts = dts + 1e-10
    tol_p = 1e-6 + 1e-12 * r + (v + rate * r) * dts + extra_pos
    tol_v = 1e-9 + 1e-12 * v + (acc + rate * v + rate * rate * r) * dts + (extra_pos * 1.2e-3 if extra_vel is None else extra_vel)
    dp = float(np.linalg.norm(got[:3] - ref[:3]))
    dv = float(np.linalg.norm(got[3:] - ref[3:]))
    if dp > tol_p or dv > tol_v:
        raise Violation(kind, f"{what}: position differs by {dp:.6g} m (tol {tol_p:.3g}), velocity by {dv:.3g} m/s "
                              f"(tol {tol_v:.3g}) from the all-UTC run", dp=dp, dv=dv, **data)
    return max(dp / tol_p, dv / tol_v)


def same_instant(what, got, ref, labels, kind="date-differs"):
    d = abs(t3.td_us(got - ref))
    # some operations hand back the date in another scale (Sun: UT1, Moon: TDB)
    tol = 2 if inexact(str(got.scale), str(ref.scale), *labels) else 0
    if d > tol:
        raise Violation(kind, f"{what}: returned date {got} is {d} us away from the requested instant {ref}")


# ------------------------------------------------------------------ propagators

PROPS = {"sgp4": ["sgp4"], "sgp4beta": ["sgp4beta"],
         "propagators": ["kepler", "kepler-other-body", "j2", "keplernum", "keplernum-dopri54", "keplernum-rkf54", "none", "sun",
                         "moon", "iter"]}


@st.composite
def tle_elements(draw):
    n = draw(go.uniform(11.0, 15.5))
    return dict(i=draw(go.uniform(0.05, 3.0)), raan=draw(go.uniform(0, 6.28)), e=10 ** draw(go.uniform(-4, -2)),
                argp=draw(go.uniform(0, 6.28)), M=draw(go.uniform(0, 6.28)), n=n,
                bstar=draw(st.sampled_from([0.0, 1e-5, 1e-4, -1e-5])))


@st.composite
def prop_case(draw, shard, tier, family="propagators"):
    leaps = t3.leap_days()
    us = draw(gd.instants(leaps, lo_mjd=gd.LO_MJD + 10, hi_mjd=gd.HI_MJD - 10))
    X, Y = draw(label_pair())
    kind = draw(st.sampled_from(PROPS[family]))
    span = {"keplernum": 40 * 60 * US, "keplernum-dopri54": 40 * 60 * US, "keplernum-rkf54": 40 * 60 * US,
            "iter": 6 * 3600 * US}.get(kind, 3 * US_DAY)
    dt = draw(st.sampled_from([0, 1, -1, 60 * US]) | gd.mixed_int(-span, span, 2))
    if kind.startswith("keplernum-"):
        dt = abs(dt) + 600 * US
    if not kind.startswith("keplernum") and kind not in ("sun", "moon", "iter") and draw(st.integers(0, 7)) == 0:
        # epoch and target on either side of a leap second (hours to days away from it): the offsets between the
        # scales are not the same at the two dates
        inside = [m for m in leaps if gd.LO_MJD + 12 < m < gd.HI_MJD - 12]
        leap_us = (draw(st.sampled_from(inside)) - iers.BASE_MJD) * US_DAY
        a = draw(gd.uniform_int(130 * US, 2 * US_DAY))
        b = draw(gd.uniform_int(130 * US, 2 * US_DAY))
        us, dt = (leap_us - a, a + b) if draw(st.booleans()) else (leap_us + b, -(a + b))
    if kind.startswith("keplernum") and not gd.leap_free(us - abs(dt) - 1800 * US, us + abs(dt) + 1800 * US, leaps):
        # the integrator walks epoch + k * step (at least 8 steps, also backward) in the epoch's own clock: a leap
        # second inside that walk is outside what the library handles (C03), whatever the label
        us += 2 * US_DAY
    if kind == "iter" and not gd.leap_free(us - abs(dt) - 7 * 3600 * US, us + abs(dt) + 7 * 3600 * US, leaps):
        # a range is walked start + k * step in the clock of its start date (C03): with a leap second inside it the
        # UTC-labelled and the TAI-labelled range are different sets of instants, not one set under two labels
        us += 2 * US_DAY
    dt = gd.push_out_of_leap_windows(us + dt, leaps) - us
    arg = draw(st.sampled_from(["date", "date", "timedelta"]))
    # NonePropagator.propagate(timedelta) stores the timedelta as the date (a C08 matter, not a label one)
    if arg == "timedelta" and (kind == "none" or not gd.leap_free(us, us + dt, leaps)):
        arg = "date"
    case = dict(us=us, dt=dt, X=X, Y=Y, kind=kind, arg=arg,
                usage=draw(st.sampled_from(["plain", "plain", "shared-propagator", "relabel-after-first-use", "by-name"])))
    if kind in ("sgp4", "sgp4beta"):
        case["tle"] = draw(tle_elements())
    elif kind == "kepler-other-body":
        case["body"] = draw(st.sampled_from(["Moon", "Mars", "Sun"]))
        case["el"] = draw(go.elements(hyperbolic=False, bodies=(case["body"],), emax_ell=0.7, rp_range=(1.05, 6.0)))
    elif kind not in ("sun", "moon"):
        case["el"] = draw(go.elements(hyperbolic=False, emax_ell=0.7, rp_range=(1.05, 6.0)))
        if kind.startswith("keplernum-"):
            # eccentric enough for the adaptive methods to really reduce their step near the perigee
            case["el"] = draw(go.elements(hyperbolic=False, emax_ell=0.75, rp_range=(1.03, 1.3)))
            pass
    if kind == "iter":
        case["X2"] = draw(gd.scales())
        case["npts"] = draw(st.integers(2, 6))
    return case


def tle_orbit(tle, date, propagator):
    from beyond.orbits import Orbit

    n = tle["n"] * 2 * math.pi / 86400.0
    return _maybe_pickled(Orbit([tle["i"], tle["raan"], tle["e"], tle["argp"], tle["M"], n], date, "TLE", "TEME", propagator,
                                bstar=tle["bstar"], ndot=0.0, ndotdot=0.0, norad_id=25544, cospar_id="1998-067A",
                                element_nb=999, revolutions=1234, name="VERIF"))


def cart_orbit(el, date, propagator):
    from beyond.orbits import Orbit

    return _maybe_pickled(Orbit(go.cart_of(el), date, "cartesian", "EME2000", propagator))


def target_us(case):
    """Instant asked for.  Sun/Moon difference the position over +-5 d / +-1 d of the argument's own
    clock: that window must not hold a leap second (else UTC and TAI steps differ by 1 s)."""
    tus = case["us"] + case["dt"]
    if case["kind"] in ("sun", "moon"):
        while not gd.leap_free(tus - 5 * US_DAY - US, tus + 5 * US_DAY + US, t3.leap_days()):
            tus += 11 * US_DAY
    return tus


def run_prop(case, X, Y, X2=None):
    """-> list of (state 6-vector in metres, returned Date, requested Date)"""
    from beyond.dates import timedelta

    us, dt, kind = case["us"], case["dt"], case["kind"]
    epoch = date_of(us, Y)
    target = date_of(target_us(case), X)
    arg = timedelta(microseconds=dt) if case["arg"] == "timedelta" else target
    if kind == "sgp4":
        res = tle_orbit(case["tle"], epoch, "Sgp4").propagate(arg)
    elif kind == "sgp4beta":
        from beyond.propagators.sgp4beta import Sgp4Beta

        p = Sgp4Beta()
        p.orbit = tle_orbit(case["tle"], epoch, None)
        res = p.propagate(arg)
    elif kind in ("kepler", "j2"):
        from beyond.propagators.j2 import J2
        from beyond.propagators.kepler import Kepler

        klass = Kepler if kind == "kepler" else J2
        usage = case.get("usage", "plain")
        if usage == "by-name":
            # the propagator named, not instantiated
            res = cart_orbit(case["el"], epoch, klass.__name__).propagate(arg)
            same = cart_orbit(case["el"], epoch, klass()).propagate(arg)
            if not np.array_equal(np.asarray(res.base, float), np.asarray(same.base, float)):
                raise Violation("propagator-by-name", f"propagator given as the name {klass.__name__!r} does not answer like an "
                                                      f"instance of that class (epoch {epoch})")
        elif usage == "relabel-after-first-use":
            # the orbit is used once, then its epoch is replaced in place by the same instant under the label Y
            orb = cart_orbit(case["el"], date_of(us, "UTC"), klass())
            orb.propagate(arg)
            orb.date = epoch
            res = orb.propagate(arg)
        elif usage == "shared-propagator":
            # ONE propagator object serves this orbit and another one (other plane, UTC epoch) in turns
            shared = klass()
            other_el = dict(case["el"], raan=(case["el"]["raan"] + 0.3) % (2 * math.pi))
            mine, other = cart_orbit(case["el"], epoch, shared), cart_orbit(other_el, date_of(us, "UTC"), shared)
            first = np.asarray(mine.propagate(arg).base, float)
            theirs = np.asarray(other.propagate(arg).base, float)
            res = mine.propagate(arg)
            alone = np.asarray(cart_orbit(other_el, date_of(us, "UTC"), klass()).propagate(arg).base, float)
            if not np.array_equal(first, np.asarray(res.base, float)) or not np.array_equal(theirs, alone):
                raise Violation("shared-propagator", f"{kind}: one propagator object serving two orbits in turns: the answers "
                                                     f"change with the order of the requests (epoch {epoch})")
        else:
            res = cart_orbit(case["el"], epoch, klass()).propagate(arg)
    elif kind == "none":
        from beyond.propagators.none import NonePropagator

        res = cart_orbit(case["el"], epoch, NonePropagator()).propagate(arg)
    elif kind == "keplernum":
        from beyond.env.solarsystem import get_body
        from beyond.propagators.keplernum import KeplerNum

        res = cart_orbit(case["el"], epoch, KeplerNum(timedelta(seconds=60), get_body("Earth"))).propagate(arg)
    elif kind in ("keplernum-dopri54", "keplernum-rkf54"):
        from beyond.env.solarsystem import get_body
        from beyond.propagators.keplernum import KeplerNum

        res = cart_orbit(case["el"], epoch, KeplerNum(timedelta(seconds=120), get_body("Earth"), method=kind.split("-")[1],
                                                      tol=1e-3)).propagate(arg)
    elif kind == "kepler-other-body":
        from beyond.orbits import Orbit
        from beyond.propagators.kepler import Kepler

        from . import c01

        res = Orbit(go.cart_of(case["el"]), epoch, "cartesian", c01.frame_for(case["body"]), Kepler()).propagate(arg)
    elif kind in ("sun", "moon"):
        from beyond.env.solarsystem import get_body

        res = get_body(kind.capitalize()).propagate(target)
    elif kind == "iter":
        from beyond.propagators.kepler import Kepler

        n = case["npts"]
        step = max(abs(dt) // max(n - 1, 1), 20)
        sign = 1 if dt >= 0 else -1
        start = date_of(us + sign * 60 * US, X)
        # the stop lies half a step beyond the last grid point: a +-1 us relabelling (UT1, TDB) of an
        # inclusive end that sits exactly on the grid would legitimately add or drop a point
        stop = date_of(us + sign * (60 * US + step * (n - 1) + step // 2), X2 or X)
        out = []
        orb = cart_orbit(case["el"], epoch, Kepler())
        for o in orb.iter(start=start, stop=stop, step=timedelta(microseconds=sign * step)):
            out.append((np.asarray(o.copy(form="cartesian").base, float), o.date, None))
            if len(out) > n + 3:
                break
        return out
    else:
        raise ValueError(kind)
    return [(np.asarray(res.copy(form="cartesian").base, float), res.date, target)]


def check_prop(case):
    us, dt, kind = case["us"], case["dt"], case["kind"]
    X, Y = lab(target_us(case), case["X"]), lab(us, case["Y"])
    X2 = lab(us, case.get("X2", "UTC")) if kind == "iter" else None
    if kind == "iter" and inexact(X):
        X = "TT"  # the grid start + k * step is reading arithmetic: uniform scales only (C03)
    if kind.startswith("keplernum") and inexact(Y):
        Y = "GPS"  # the integrator steps epoch + k * 60 s in the epoch's own scale: same remark
    if kind in ("sun", "moon"):
        Y = "UTC"
        if X == "UTC":
            X = "TAI"
    if case["arg"] == "timedelta" and kind not in ("sun", "moon", "iter"):
        if inexact(Y):
            Y = "GPS"  # epoch + timedelta is only lawful in a uniform scale (C03)
        X = Y  # the argument carries no label
    ref = run_prop(case, "UTC", "UTC", "UTC")
    with cloned(case):
        got = run_prop(case, X, Y, X2)
    labels = (X, Y) + ((X2,) if X2 else ())
    desc = f"{kind}: epoch {date_of(us, Y)}, propagate({'timedelta ' if case['arg'] == 'timedelta' else ''}{date_of(target_us(case), X)})"
    if len(got) != len(ref):
        raise Violation("iter-count", f"{desc}: {len(got)} points, the all-UTC run gives {len(ref)}")
    dts = 2e-6 if inexact(*labels) else 0.0
    extra, extra_vel = 0.0, None
    if kind == "sgp4" and inexact(Y):
        dts += 1e-8 * 86400
    if kind == "sgp4" and inexact(X):
        # the sgp4 package turns the calendar fields into a Julian date (one ulp = 40 us): a 1 us
        # relabelling of the argument may flip its last bit
        dts += 1.5 * JD_QUANTUM
    if kind in ("sun", "moon"):
        # position from the Julian century of a Julian date (40 us quantum, reached through a 1 us
        # relabelling); velocity by central difference over +-5 d (Sun) / +-1 d (Moon)
        vbody, half = (3.0e4, 5 * 86400.0) if kind == "sun" else (1.1e3, 86400.0)
        dts = 0.0
        # (the UT1 / TDB reading reached from two labels may differ by 1 us - one rounding per path - and
        # flip the last bit of the Julian date, exactly as for the sidereal angle in the frames facet)
        extra = vbody * (1.5 * JD_QUANTUM + (2e-6 if inexact(X) else 0.0))
        # date +- step is reading arithmetic in the argument's own scale (C03: uniform only for TAI/TT/GPS/
        # UTC): in UT1 the two ends move by the change of UT1-UTC over the step (<= 4 ms/day), in TDB by
        # the periodic term (<= 29 us/day)
        # (and a TDB step taken next to 0h UTC may land on the other UTC day, whose UT1-UTC differs)
        drift = {"UT1": 4e-3, "TDB": 3e-5}.get(X, 0.0) * half / 86400.0 + (4e-3 if X == "TDB" else 0.0)
        extra_vel = (2 * extra + 2 * vbody * drift) / (2 * half) + 1e-9
    worst = 0.0
    for k, ((g, gdate, want), (r, rdate, _)) in enumerate(zip(got, ref)):
        worst = max(worst, compare_states(f"{desc} [{k}]", g, r, dts, kind=f"{kind}-label-dependent", extra_pos=extra,
                                          extra_vel=extra_vel,
                                          mu=go.MU[case["body"]] if kind == "kepler-other-body" else None))
        same_instant(f"{desc} [{k}]", gdate, rdate, labels)
    cls = [f"kind:{kind}", f"eop:{t3.cfg()}", f"X:{X}", f"Y:{Y}", f"arg:{case['arg']}"] + clone_classes(case)
    if kind in ("kepler", "j2") and case.get("usage", "plain") != "plain":
        cls.append(f"usage:{case['usage']}")
    if straddle(us, (Y,)) or straddle(us + dt, (X,)):
        cls.append("labels-straddle-0h")
    if abs(dt) > US_DAY:
        cls.append("|dt|>1d")
    return dict(nt=(X, Y) != ("UTC", "UTC"), cls=cls, ratio=worst)


# ------------------------------------------------------------------ frames

FRAMES = ["EME2000", "MOD", "TOD", "TEME", "PEF", "ITRF", "TIRF", "CIRF", "GCRF", "G50"]
ROTATING = {"PEF", "ITRF", "TIRF"}
IAU2010 = {"TIRF", "CIRF", "GCRF"}
STATIONS = [(45.0, 3.0, 100.0), (-33.9, 18.4, 50.0), (78.2, 15.4, 450.0)]


def _frame_arg(name):
    """A frame name, or one of three ground stations (topocentric frames: at most 3 registrations per shard)."""
    if not name.startswith("station:"):
        return name
    from . import c11

    return c11.station(_SHARD[0], *STATIONS[int(name.split(":")[1])])


@st.composite
def frame_case(draw, shard, tier):
    us = draw(gd.instants(t3.leap_days(), lo_mjd=gd.LO_MJD + 2, hi_mjd=gd.HI_MJD - 2))
    X = iers.SCALES[draw(st.integers(1, 5))]
    k = draw(st.integers(0, len(FRAMES) ** 2 - 1))
    src, dst = FRAMES[k // len(FRAMES)], FRAMES[k % len(FRAMES)]
    el = draw(go.elements(hyperbolic=False, emax_ell=0.9, rp_range=(1.03, 8.0)))
    form = "cartesian"
    if src not in ROTATING and draw(st.booleans()):
        # the input state is HELD in another form when its frame is changed
        form = draw(st.sampled_from(["keplerian", "keplerian_mean", "keplerian_circular", "equinoctial", "spherical",
                                      "cylindrical"]))
    if draw(st.integers(0, 5)) == 0:
        dst = f"station:{draw(st.integers(0, len(STATIONS) - 1))}"
    return dict(us=us, X=X, src=src, dst=dst, el=el, form=form)


def check_frames(case):
    from beyond.orbits import StateVector

    us, src, dst = case["us"], case["src"], case["dst"]
    X = lab(us, case["X"])
    cart = go.cart_of(case["el"])
    out = {}
    for L in ("UTC", X):
        _CLONE["how"] = case.get("clone", "none") if L != "UTC" else "none"
        d = date_of(us, L)
        sv = StateVector(cart, d, "cartesian", src)
        if case.get("form", "cartesian") != "cartesian":
            sv = sv.copy(form=case["form"])
        target = _frame_arg(dst)
        res = sv.copy(frame=target)
        if str(res.frame) != (dst if isinstance(target, str) else target.name):
            raise Violation("frame-name", f"copy(frame={dst}) gives {res.frame}")
        if res.form.name != case.get("form", "cartesian"):
            raise Violation("frame-form", f"copy(frame={dst}) of a state held as {case.get('form')} comes back as {res.form.name}")
        out[L] = (np.asarray(res.copy(form="cartesian").base, float), res.date, d)
    g, gdate, d = out[X]
    r, rdate, _ = out["UTC"]
    rotating = bool({src, dst} & ROTATING) or dst.startswith("station:")
    rate = OMEGA_E if rotating else 1e-10
    dts = 2e-6 if inexact(X) else 0.0
    rr = float(np.linalg.norm(r[:3]))
    vv = float(np.linalg.norm(r[3:]))
    if dst.startswith("station:"):
        # a topocentric state: the lever arm of the Earth's rotation is the geocentric radius
        rr = float(np.linalg.norm(np.asarray(cart, float)[:3]))
        vv = float(np.linalg.norm(np.asarray(cart, float)[3:])) + OMEGA_E * rr
    extra_pos = extra_vel = 0.0
    quantum = False
    if rotating or (src in IAU2010) != (dst in IAU2010):
        # GMST is evaluated in seconds of time near 1e9 (one ulp = 1.2e-7 s = 8.7e-12 rad); the inertial
        # frames of the two families are joined through ITRF (Earth rotation angle there, GMST back)
        extra_pos, extra_vel = 3e-11 * rr, 3e-11 * vv + 3e-11 * OMEGA_E * rr
    what = f"{src}->{dst} at {d}"
    try:
        ratio = compare_states(what, g, r, dts, rate=rate, kind="frame-label-dependent",
                               extra_pos=extra_pos, extra_vel=extra_vel, src=src, dst=dst)
    except Violation as first:
        # The sidereal angle / Earth rotation angle come from a UT1 Julian date held in a double: one
        # ulp is 2^-31 day = 40 us.  The UT1 reading reached from two labels may differ by 1 us (UT1-UTC
        # is tabulated to 0.1 us and rounded once per path), which flips the last bit of that Julian
        # date in ~2.5 % of such cases.  That is the resolution of the library's Earth rotation: a
        # difference that is *exactly* one such quantum of rotation about the pole is accepted,
        # anything else is not (so millimetre-level label effects in ITRF/PEF/TIRF stay visible).
        if not rotating:
            raise
        quantum = True
        ratio = None
        for k in (1, -1):
            turn = _rot3_state(k * JD_TURN)
            if dst.startswith("station:"):
                break  # (the turn about the pole is not a turn about the station's vertical: loose bound below)
            if dst in ROTATING and src not in ROTATING:
                cand_g, cand_r = turn @ g, r
            elif src in ROTATING and dst not in ROTATING:
                sv = StateVector(turn @ np.asarray(cart, float), date_of(us, "UTC"), "cartesian", src)
                cand_g, cand_r = g, np.asarray(sv.copy(frame=dst).base, float)
            else:
                break
            try:
                ratio = compare_states(what, cand_g, cand_r, dts, rate=rate, kind="frame-label-dependent",
                                       extra_pos=extra_pos, extra_vel=extra_vel, src=src, dst=dst)
                break
            except Violation:
                continue
        if ratio is None:
            if dst.startswith("station:"):
                ratio = compare_states(what, g, r, dts, rate=rate, kind="frame-label-dependent",
                                       extra_pos=extra_pos + OMEGA_E * rr * 1.5 * JD_QUANTUM,
                                       extra_vel=extra_vel + OMEGA_E * vv * 1.5 * JD_QUANTUM, src=src, dst=dst)
            elif src in ROTATING and dst in ROTATING:
                # both ends turn (GMST and ERA from the same Julian date): the quanta cancel to the
                # difference of the two rates; only the loose bound is available here
                ratio = compare_states(what, g, r, dts + 1.5 * JD_QUANTUM * 3e-3, rate=rate,
                                       kind="frame-label-dependent", extra_pos=extra_pos, extra_vel=extra_vel,
                                       src=src, dst=dst)
            else:
                raise first
    same_instant(f"{src}->{dst}", gdate, rdate, (X,))
    cls = [f"eop:{t3.cfg()}", f"X:{X}", f"{src}->{dst}", f"held-as:{case.get('form', 'cartesian')}"] + clone_classes(case)
    if straddle(us, (X,)):
        cls.append("labels-straddle-0h")
    if quantum:
        cls.append("one-ulp-of-JD-accepted")
    if abs((us + 69 * US) // US_DAY + iers.BASE_MJD - gd.EQUINOX_SWITCH_MJD) <= 1 and straddle(us, (X,)):
        cls.append("straddles-1997-02-27")
    return dict(nt=src != dst, cls=cls, ratio=ratio)


# ------------------------------------------------------------------ ephemeris interpolation


@st.composite
def interp_case(draw, shard, tier):
    leaps = t3.leap_days()
    us = draw(gd.instants(leaps, lo_mjd=gd.LO_MJD + 5, hi_mjd=gd.HI_MJD - 5))
    n = draw(st.integers(9, 14))
    step = draw(st.sampled_from([10, 60, 180, 300])) * US
    if not gd.leap_free(us, us + n * step, leaps):
        us += 2 * US_DAY
    mixed = draw(st.booleans())
    Y = iers.SCALES[draw(st.integers(0, 5))]
    labels = [iers.SCALES[draw(st.integers(0, 5))] if mixed else Y for _ in range(n)]
    X = iers.SCALES[draw(st.integers(0 if (mixed or Y != "UTC") else 1, 5))]
    off = draw(st.sampled_from([0, (n - 1) * step]) | st.integers(0, n - 1).map(lambda k: k * step)
               | gd.uniform_int(0, (n - 1) * step))
    method = draw(st.sampled_from(["lagrange", "lagrange", "linear"]))
    order = draw(st.integers(2, 8))
    op = draw(st.sampled_from(["interpolate", "propagate", "iter", "iter-window", "ephem-window"]))
    el = draw(go.elements(hyperbolic=False, emax_ell=0.5, rp_range=(1.05, 4.0)))
    return dict(us=us, n=n, step=step, labels=labels, X=X, off=off, method=method, order=order, op=op, el=el)


def _inside(case, X, labels):
    """An inexact label may fall 1 us outside the ephemeris when asked exactly at its ends."""
    off, last = case["off"], (len(case["labels"]) - 1) * case["step"]
    if inexact(X, *labels):
        off = min(max(off, 10), last - 10)
    return off


def run_interp(case, labels, X):
    from beyond.dates import timedelta
    from beyond.orbits import Ephem, Orbit

    us, step = case["us"], case["step"]
    cart0 = go.cart_of(case["el"])
    orbs = []
    for k, L in enumerate(labels):
        cart = tb.propagate_uv(cart0, k * step / 1e6, MU_E)
        orbs.append(Orbit(cart, date_of(us + k * step, L), "cartesian", "EME2000", None))
    eph = Ephem(orbs, method=case["method"], order=case["order"])
    when = date_of(us + _inside(case, X, labels), X)
    if case["op"] in ("iter", "iter-window", "ephem-window"):
        stop = date_of(us + (len(labels) - 1) * step - case.get("stop_shift", 0), X)
        out = []
        # "-window": a part of the table at its own sampling (no step), bounds labelled X
        it = {"iter": lambda: eph.iter(start=when, stop=stop, step=timedelta(microseconds=step // 2 + 1)),
              "iter-window": lambda: eph.iter(start=when, stop=stop),
              "ephem-window": lambda: iter(eph.ephem(start=when, stop=stop))}[case["op"]]()
        for o in it:
            out.append((np.asarray(o.base, float), o.date))
            if len(out) > 3 * len(labels):
                break
        return out
    res = getattr(eph, case["op"])(when)
    return [(np.asarray(res.base, float), res.date)]


def check_interp(case):
    us = case["us"]
    labels = [lab(us + k * case["step"], L) for k, L in enumerate(case["labels"])]
    X = lab(us + case["off"], case["X"])
    if case["op"] == "iter" and inexact(X):
        X = "TT"  # the grid start + k * step is reading arithmetic: uniform scales only (C03)
    if case["op"].endswith("-window") and inexact(X, *labels) and case["off"] % case["step"] == 0:
        # a bound exactly on a node whose label, or whose own, is exact to 1 us only may fall on either side of it
        case = dict(case, off=case["off"] + 10)
    case = dict(case, off=_inside(case, X, labels), stop_shift=10 if inexact(X, *labels) else 0)
    with cloned(case):
        got = run_interp(case, labels, X)
    ref = run_interp(case, ["UTC"] * len(labels), "UTC")
    desc = f"Ephem({len(labels)} pts every {case['step'] // US} s, labels {sorted(set(labels))}).{case['op']}({date_of(us + case['off'], X)}) {case['method']}/{case['order']}"
    if len(got) != len(ref):
        raise Violation("iter-count", f"{desc}: {len(got)} points, the all-UTC run gives {len(ref)}")
    all_labels = tuple(labels) + (X,)
    dts = 2e-6 if inexact(*all_labels) else 0.0
    # abscissae are float MJD (resolution 0.63 us): Lagrange weights carry ulp(mjd)/step relative noise
    noise = 7.3e-12 * 86400 * US / case["step"] * 4 * case["order"]
    worst = 0.0
    for k, ((g, gdate), (r, rdate)) in enumerate(zip(got, ref)):
        extra = noise * float(np.linalg.norm(r[:3])) if (inexact(*all_labels)) else 0.0
        worst = max(worst, compare_states(f"{desc} [{k}]", g, r, dts, kind="interp-label-dependent", extra_pos=extra))
        same_instant(f"{desc} [{k}]", gdate, rdate, all_labels)
    cls = [f"eop:{t3.cfg()}", f"X:{X}", f"op:{case['op']}", case["method"], "mixed-labels" if len(set(labels)) > 1 else "one-label"]
    if case["off"] % case["step"] == 0:
        cls.append("on-node")
    return dict(nt=set(all_labels) != {"UTC"}, cls=cls, ratio=worst)


# ------------------------------------------------------------------ TLE writer


@st.composite
def tle_case(draw, shard, tier):
    us = draw(gd.instants(t3.leap_days(), lo_mjd=gd.LO_MJD + 2, hi_mjd=gd.HI_MJD - 2))
    Y = iers.SCALES[draw(st.integers(1, 5))]
    return dict(us=us, Y=Y, tle=draw(tle_elements()), via=draw(st.sampled_from(["Tle.from_orbit", "Sgp4.orbit"])))


def _tle_text(case, L):
    from beyond.io.tle import Tle

    orb = tle_orbit(case["tle"], date_of(case["us"], L), "Sgp4" if case["via"] == "Sgp4.orbit" else None)
    text = Tle.from_orbit(orb).text
    lines = text.splitlines()[-2:]
    return lines, Tle(text)


def check_tle(case):
    us = case["us"]
    Y = lab(us, case["Y"])
    (r1, r2), rt = _tle_text(case, "UTC")
    with cloned(case):
        (g1, g2), gt = _tle_text(case, Y)
    what = f"Tle.from_orbit(epoch {date_of(us, Y)})"
    if g2 != r2:
        raise Violation("tle-line2", f"{what}: line 2 {g2!r} != {r2!r} (UTC-labelled epoch)")
    if not inexact(Y):
        if g1 != r1:
            raise Violation("tle-epoch-label-dependent",
                            f"{what}: line 1 {g1!r}, with the same instant labelled UTC {r1!r}")
    else:
        if g1[:18] != r1[:18] or g1[32:68] != r1[32:68]:
            raise Violation("tle-line1", f"{what}: line 1 {g1!r} != {r1!r} outside the epoch field")
    d = abs(t3.td_us(gt.epoch - rt.epoch))
    tol = 0 if not inexact(Y) else 864 + 2
    if d > tol:
        raise Violation("tle-epoch-label-dependent", f"{what}: written epoch {gt.epoch} vs {rt.epoch} for the UTC label ({d} us apart)")
    # the epoch written is the instant (TLE epochs are UTC; field resolution 1e-8 day)
    off = abs(t3.td_us(rt.epoch - date_of(us, "UTC")))
    if off > 432 + 1:
        raise Violation("tle-epoch", f"UTC epoch {date_of(us, 'UTC')} written as {rt.epoch}")
    cls = [f"eop:{t3.cfg()}", f"Y:{Y}", case["via"]]
    if straddle(us, (Y,)):
        cls.append("labels-straddle-0h")
    return dict(nt=True, cls=cls, ratio=d / tol if tol else 0.0)


# ------------------------------------------------------------------ CCSDS writers


def setup_ccsds(shard):
    setup(shard)
    from beyond.config import config

    # CREATION_DATE is Date.now(), which the 1973-2017 tables do not cover
    config["eop"]["missing_policy"] = "pass"


CCSDS_KINDS = ["opm", "opm-man", "omm", "oem", "oem-mixed"]


@st.composite
def ccsds_case(draw, shard, tier):
    leaps = t3.leap_days()
    us = draw(gd.instants(leaps, lo_mjd=gd.LO_MJD + 2, hi_mjd=gd.HI_MJD - 2))
    kind = draw(st.sampled_from(CCSDS_KINDS))
    n = draw(st.integers(3, 9))
    step = draw(st.sampled_from([1, 60, 600])) * US
    if not gd.leap_free(us - US, us + n * step + US, leaps):
        us += 2 * US_DAY
    Y = iers.SCALES[draw(st.integers(0, 5))]
    others = [iers.SCALES[draw(st.integers(0, 5))] for _ in range(n)]
    if kind in ("opm", "omm", "oem") and Y == "UTC":
        Y = iers.SCALES[draw(st.integers(1, 5))]
    case = dict(us=us, kind=kind, n=n, step=step, Y=Y, others=others, fmt=draw(st.sampled_from(["kvn", "xml"])),
                via=draw(st.sampled_from(["dumps", "dumps", "dump-file"])),
                # which points of an ephemeris carry a covariance (written with an EPOCH of its own)
                covs=[draw(st.integers(0, 3)) == 0 for _ in range(n)] if draw(st.booleans()) else [False] * n)
    if kind == "omm":
        case["tle"] = draw(tle_elements())
    else:
        case["el"] = draw(go.elements(hyperbolic=False, emax_ell=0.5, rp_range=(1.05, 4.0)))
    return case


def check_ccsds(case):
    import re

    from beyond.io.ccsds import dumps, loads
    from beyond.io.tle import Tle
    from beyond.orbits import Ephem
    from beyond.orbits.man import ImpulsiveMan

    us, kind, fmt, step = case["us"], case["kind"], case["fmt"], case["step"]
    Y = lab(us, case["Y"])
    # every other date of the message is converted to the declared time system by the writer: a UT1
    # system must not meet an instant inside the window where the UT1 reading is ambiguous (C03)
    others_us = [us + k * step for k in range(case["n"])] if kind.startswith("oem") else [us + step]
    if Y == "UT1" and any(t3.ut1_slack(u, ("UT1",)) for u in others_us):
        Y = "TDB"
    labels = [Y]
    if kind == "omm":
        # (a TLE without name line gives an empty OBJECT_NAME, which the XML reader cannot load: C13)
        obj = Tle.from_orbit(tle_orbit(case["tle"], date_of(us, "UTC"), None), name="VERIF").orbit()
        obj.date = date_of(us, Y)
        dates = [obj.date]
    elif kind in ("opm", "opm-man"):
        obj = cart_orbit(case["el"], date_of(us, Y), None)
        obj.name, obj.cospar_id = "VERIF", "1998-067A"
        dates = [obj.date]
        if kind == "opm-man":
            Z = lab(us + step, case["others"][0])
            labels.append(Z)
            obj.maneuvers = [ImpulsiveMan(date_of(us + step, Z), [1.0, 0.0, 0.0], frame="TNW")]
            dates.append(obj.maneuvers[0].date)
    else:
        cart0 = go.cart_of(case["el"])
        orbs = []
        for k in range(case["n"]):
            L = lab(us + k * step, case["others"][k]) if (kind == "oem-mixed" and k) else Y
            labels.append(L)
            orbs.append(cart_orbit(dict(case["el"]), date_of(us + k * step, L), None))
            orbs[-1][:] = tb.propagate_uv(cart0, k * step / 1e6, MU_E)
        covs = case.get("covs") or [False] * case["n"]
        for k, o in enumerate(orbs):
            if covs[k]:
                from beyond.orbits.cov import Cov

                o.cov = Cov(o, np.diag([100.0 + k, 400.0, 900.0, 0.01, 0.04, 0.09]), o.frame)
        obj = Ephem(orbs)
        obj.name, obj.cospar_id = "VERIF", "1998-067A"
        dates = [o.date for o in orbs]
    if case.get("via", "dumps") == "dump-file":
        import io

        from beyond.io.ccsds import dump, load

        buf = io.StringIO()
        dump(obj, buf, fmt=fmt, originator="VERIF")
        txt = buf.getvalue()
        loads = lambda text: load(io.StringIO(text))  # noqa: E731  (the file-object entry points)
        if txt.lstrip().startswith("CCSDS_") != (fmt == "kvn") or ("VERIF" not in txt.split("META_START")[0].split("<body>")[0]):
            raise Violation("ccsds-dump-arguments", f"dump(..., fmt={fmt!r}, originator='VERIF') wrote: {txt[:80]!r}...")
    else:
        txt = dumps(obj, fmt=fmt)
    m = re.search(r"TIME_SYSTEM\s*=\s*(\S+)|<TIME_SYSTEM>([^<]+)<", txt)
    system = (m.group(1) or m.group(2)) if m else None
    what = f"{kind}/{fmt} with dates labelled {sorted(set(labels))} (first {dates[0]})"
    if system != Y:
        raise Violation("ccsds-time-system", f"{what}: TIME_SYSTEM = {system}")
    back = loads(txt)
    if kind.startswith("oem"):
        got = [o.date for o in back]
    elif kind == "opm-man":
        got = [back.date, back.maneuvers[0].date]
    else:
        got = [back.date]
    if len(got) != len(dates):
        raise Violation("ccsds-count", f"{what}: {len(got)} dates read back, {len(dates)} written")
    # the same message as another producer may spell it: the Blue Books also allow day-of-year dates and dates without
    # decimals; the time system declared applies to them all the same
    from datetime import date as _date

    def doy(mo):
        y, mth, d = int(mo.group(1)), int(mo.group(2)), int(mo.group(3))
        return f"{y:04d}-{_date(y, mth, d).timetuple().tm_yday:03d}T{mo.group(4)}.{mo.group(5)}"

    stamp = r"(\d{4})-(\d{2})-(\d{2})T(\d{2}:\d{2}:\d{2})\.(\d{6})"
    spellings = [("day-of-year", re.sub(stamp, doy, txt))]
    if all(mo.group(5) == "000000" for mo in re.finditer(stamp, txt)):
        spellings.append(("no decimals", re.sub(stamp, lambda mo: mo.group(0)[:-7], txt)))
    for spelling, txt2 in spellings:
        back2 = loads(txt2)
        got2 = ([o.date for o in back2] if kind.startswith("oem") else
                [back2.date, back2.maneuvers[0].date] if kind == "opm-man" else [back2.date])
        for k, (g2, g) in enumerate(zip(got2, got)):
            if len(got2) != len(got) or t3.td_us(g2 - g) != 0 or str(g2.scale) != str(g.scale):
                raise Violation("ccsds-date-spelling", f"{what}: with its dates spelled in the {spelling} format, date #{k} is read "
                                f"as {g2} instead of {g}")
    if kind.startswith("oem") and any(case.get("covs") or []):
        # a covariance is written with an EPOCH of its own and re-attached by it: it must come back on its own point
        has = [getattr(o, "cov", None) is not None for o in back]
        vals = [round(float(np.asarray(o.cov)[0, 0])) - 100 if h else None for o, h in zip(back, has)]
        want = [k if c else None for k, c in enumerate(case["covs"])]
        if vals != want:
            raise Violation("ccsds-oem-covariance-epoch", f"{what}: covariances written on points "
                            f"{[k for k, c in enumerate(case['covs']) if c]} come back on {vals} (index carried in C[0,0])")
    mixed = len(set(labels)) > 1
    # a UT1 / TDB date prints a reading that may be 1 us off the one it was built from (C03, 2 us)
    tol = 2 if inexact(*labels) else 0
    worst = 0
    for k, (g, d) in enumerate(zip(got, dates)):
        off = t3.td_us(g - d)
        worst = max(worst, abs(off))
        if abs(off) > tol:
            raise Violation(f"ccsds-{kind.split('-')[0]}-instant",
                            f"{what}: date #{k} {d} comes back as {g} ({off} us away)", off=off)
        if str(g.scale) != Y:
            raise Violation("ccsds-time-system", f"{what}: date #{k} read back labelled {g.scale}")
    return dict(nt=True, cls=[f"eop:{t3.cfg()}", f"kind:{kind}", fmt, f"Y:{Y}", "mixed-labels" if mixed else "one-label",
                              f"via:{case.get('via', 'dumps')}"], ratio=worst / tol if tol else 0.0)


# ------------------------------------------------------------------ CCSDS messages made of several parts


@st.composite
def ccsds_multi_case(draw, shard, tier):
    leaps = t3.leap_days()
    us = draw(gd.instants(leaps, lo_mjd=gd.LO_MJD + 2, hi_mjd=gd.HI_MJD - 2))
    if not gd.leap_free(us - US, us + 6 * 3600 * US, leaps):
        us += 2 * US_DAY
    kind = draw(st.sampled_from(["oem-segments", "oem-segments", "tdm-paths", "opm-mans"]))
    nparts = draw(st.integers(2, 3))
    step = draw(st.sampled_from([1, 60, 300])) * US
    parts = [dict(Y=iers.SCALES[draw(st.integers(0, 5))], n=draw(st.integers(3, 6)),
                  inner=[iers.SCALES[draw(st.integers(0, 5))] for _ in range(6)] if draw(st.integers(0, 3)) == 0 else None)
             for _ in range(nparts)]
    return dict(us=us, kind=kind, step=step, parts=parts, fmt=draw(st.sampled_from(["kvn", "xml"])),
                el=draw(go.elements(hyperbolic=False, emax_ell=0.5, rp_range=(1.05, 4.0))))


def _system(Y, instants):
    """The label that declares a time system: never UT1 if one of the dates written under it lies where the
    UT1 reading is ambiguous (C03)."""
    Y = lab(instants[0], Y)
    if Y == "UT1" and any(t3.ut1_slack(u, ("UT1",)) for u in instants):
        Y = "TDB"
    return Y


def check_ccsds_multi(case):
    from beyond.io.ccsds import dumps, loads
    from beyond.orbits import Ephem
    from beyond.orbits.man import ContinuousMan, ImpulsiveMan
    from beyond.dates import timedelta
    from beyond.utils.measures import Doppler, MeasureSet, Range

    us, kind, step, fmt = case["us"], case["kind"], case["step"], case["fmt"]
    written = []   # per part: list of Dates as handed to the writer
    systems = []
    labels = []
    t = us
    if kind == "oem-segments":
        cart0 = go.cart_of(case["el"])
        ephems = []
        for part in case["parts"]:
            inst = [t + k * step for k in range(part["n"])]
            Y = _system(part["Y"], inst)
            orbs = []
            for k, u in enumerate(inst):
                L = lab(u, part["inner"][k]) if (part["inner"] and k) else Y
                labels.append(L)
                o = cart_orbit(dict(case["el"]), date_of(u, L), None)
                o[:] = tb.propagate_uv(cart0, (u - us) / 1e6, MU_E)
                orbs.append(o)
            e = Ephem(orbs)
            e.name, e.cospar_id = "VERIF", "1998-067A"
            ephems.append(e)
            written.append([o.date for o in orbs])
            systems.append(Y)
            t = inst[-1] + 10 * step
        back = loads(dumps(ephems, fmt=fmt))
        back = back if isinstance(back, (list, tuple)) else [back]
        got = [[o.date for o in e] for e in back]
    elif kind == "tdm-paths":
        ms = MeasureSet()
        for j, part in enumerate(case["parts"]):
            inst = [t + k * step for k in range(part["n"])]
            Y = _system(part["Y"], inst)
            path = (f"STA{j}", "SAT", f"STA{j}")
            ds = []
            for k, u in enumerate(inst):
                L = lab(u, part["inner"][k]) if (part["inner"] and k) else Y
                labels.append(L)
                d = date_of(u, L)
                ms.append((Range if k % 2 == 0 else Doppler)(path, d, 1.0e6 + 1000.0 * k))
                ds.append(d)
            written.append(ds)
            systems.append(Y)
            t = inst[-1] + 10 * step
        back = loads(dumps(ms, fmt=fmt))
        sets = back if isinstance(back, list) and back and isinstance(back[0], MeasureSet) else [back]
        flat = [m for sset in sets for m in sset]
        got = []
        for j in range(len(case["parts"])):
            got.append([m.date for m in flat if tuple(m.path)[0] == f"STA{j}"])
    else:
        Y = _system(case["parts"][0]["Y"], [us] + [us + (j + 1) * 7 * step for j in range(len(case["parts"]))])
        orb = cart_orbit(case["el"], date_of(us, Y), None)
        orb.name, orb.cospar_id = "VERIF", "1998-067A"
        labels.append(Y)
        mans, ds = [], [orb.date]
        for j, part in enumerate(case["parts"]):
            u = us + (j + 1) * 7 * step
            Z = lab(u, part["Y"])
            labels.append(Z)
            d = date_of(u, Z)
            if j % 2 == 0:
                mans.append(ImpulsiveMan(d, [1.0, 0.0, 0.0], frame="TNW"))
            else:
                mans.append(ContinuousMan(d, timedelta(seconds=30), dv=[0.0, 1.0, 0.0], frame="QSW"))
            ds.append(d)
        orb.maneuvers = mans
        back = loads(dumps(orb, fmt=fmt))
        written, systems = [ds], [Y]
        got = [[back.date] + [getattr(m, "start", None) or m.date for m in back.maneuvers]]
    what = f"{kind}/{fmt}, parts declared {systems}, dates labelled {sorted(set(labels))}"
    if len(got) != len(written):
        raise Violation("ccsds-parts", f"{what}: {len(got)} parts read back, {len(written)} written")
    tol = 2 if inexact(*labels, *systems) else 0
    worst = 0
    for j, (g, w) in enumerate(zip(got, written)):
        if len(g) != len(w):
            raise Violation("ccsds-count", f"{what}: part {j}: {len(g)} dates read back, {len(w)} written")
        for k, (a, b) in enumerate(zip(g, w)):
            off = t3.td_us(a - b)
            worst = max(worst, abs(off))
            if abs(off) > tol:
                raise Violation(f"ccsds-{kind.split('-')[0]}-instant",
                                f"{what}: part {j}, date #{k} {b} comes back as {a} ({off} us away)", off=off, part=j)
            if kind != "tdm-paths" or True:
                if str(a.scale) != systems[min(j, len(systems) - 1)]:
                    raise Violation("ccsds-time-system", f"{what}: part {j}, date #{k} read back labelled {a.scale}, "
                                                         f"the part was written under {systems[min(j, len(systems) - 1)]}")
    cls = [f"eop:{t3.cfg()}", f"kind:{kind}", fmt, f"parts:{len(written) if kind != 'opm-mans' else len(case['parts'])}",
           "systems-differ" if len(set(systems)) > 1 or kind == "opm-mans" and len(set(labels)) > 1 else "one-system"]
    return dict(nt=len(set(labels)) > 1, cls=cls + clone_classes(case), ratio=worst / tol if tol else 0.0)


# ------------------------------------------------------------------ events


@st.composite
def events_case(draw, shard, tier):
    leaps = t3.leap_days()
    us = draw(gd.instants(leaps, lo_mjd=gd.LO_MJD + 3, hi_mjd=gd.HI_MJD - 3))
    if not gd.leap_free(us - US, us + US_DAY, leaps):
        us += 2 * US_DAY
    X, Y = draw(label_pair())
    X2 = iers.SCALES[draw(st.integers(0, 5))]
    el = draw(go.elements(hyperbolic=False, emax_ell=0.5, rp_range=(1.05, 2.5)))
    step = draw(st.sampled_from([60, 180, 300])) * US
    revs = draw(go.uniform(0.6, 1.6))
    return dict(us=us, X=X, Y=Y, X2=X2, el=el, step=step, revs=revs,
                listeners=draw(st.sampled_from([["node"], ["apside"], ["node", "apside"], ["light"], ["penumbra", "node"],
                                                ["anomaly"], ["terminator"], ["light", "anomaly", "terminator"]])))


def run_events(case, X, Y, X2):
    from beyond.dates import timedelta
    from beyond.propagators.kepler import Kepler
    from beyond.propagators.listeners import (AnomalyListener, ApsideListener, LightListener, NodeListener,
                                              TerminatorListener)

    def make(k):
        if k == "terminator":
            if "terminator" not in _STATIONS:  # one per process (its constructor registers a frame)
                _STATIONS["terminator"] = TerminatorListener()
            return _STATIONS["terminator"]
        return {"node": NodeListener, "apside": ApsideListener, "light": lambda: LightListener("umbra"),
                "penumbra": lambda: LightListener("penumbra"), "anomaly": lambda: AnomalyListener(1.0, "mean")}[k]()

    us, step = case["us"], case["step"]
    period = 2 * math.pi * math.sqrt(case["el"]["a"] ** 3 / MU_E)
    n = int(case["revs"] * period * US / step) + 1
    orb = cart_orbit(case["el"], date_of(us, Y), Kepler())
    listeners = [make(k) for k in case["listeners"]]
    start = date_of(us + 60 * US, X)
    stop = date_of(us + 60 * US + n * step + step // 2, X2)
    out = []
    for o in orb.iter(start=start, stop=stop, step=timedelta(microseconds=step), listeners=listeners):
        if o.event is not None:
            out.append((str(o.event.info), o.date, np.asarray(o.copy(form="cartesian").base, float)))
    return out


def check_events(case):
    us = case["us"]
    X, Y, X2 = lab(us, case["X"]), lab(us, case["Y"]), lab(us, case["X2"])
    if inexact(X):
        X = "TAI"  # the grid start + k * step is reading arithmetic: uniform scales only (C03)
    ref = run_events(case, "UTC", "UTC", "UTC")
    with cloned(case):
        got = run_events(case, X, Y, X2)
    what = f"events {case['listeners']} of a Kepler orbit, epoch {date_of(us, Y)}, iter from {date_of(us + 60 * US, X)}"
    if [e[0] for e in got] != [e[0] for e in ref]:
        raise Violation("events-differ", f"{what}: events {[e[0] for e in got]}, the all-UTC run gives {[e[0] for e in ref]}")
    worst = 0
    # the bisection stops when the bracket is below 1 us: either end of the last bracket may be returned
    tol = 3 + (2 if inexact(X, Y, X2) else 0)
    for (name, gd_, gs), (_, rd, rs) in zip(got, ref):
        off = abs(t3.td_us(gd_ - rd))
        worst = max(worst, off)
        if off > tol:
            raise Violation("event-date-label-dependent", f"{what}: {name} at {gd_}, the all-UTC run finds it at {rd} ({off} us apart)")
        compare_states(f"{what}: state at {name}", gs, rs, tol * 1e-6, kind="event-state-label-dependent")
    return dict(nt=True, cls=[f"eop:{t3.cfg()}", f"X:{X}", f"Y:{Y}", f"events:{len(ref)}"], ratio=worst / tol)


# ------------------------------------------------------------------ utils (LTAN, beta)


@st.composite
def utils_case(draw, shard, tier):
    us = draw(gd.instants(t3.leap_days(), lo_mjd=gd.LO_MJD + 10, hi_mjd=gd.HI_MJD - 10))
    X = iers.SCALES[draw(st.integers(1, 5))]
    op = draw(st.sampled_from(["raan2ltan", "ltan2raan", "orb2ltan", "beta", "beta-moon"]))
    return dict(us=us, X=X, op=op, type=draw(st.sampled_from(["mean", "true"])), raan=draw(go.uniform(0, 6.283)),
                ltan=draw(go.uniform(0, 86400)), el=draw(go.elements(hyperbolic=False, emax_ell=0.5, rp_range=(1.05, 4.0))))


def check_utils(case):
    from beyond.utils import ltan
    from beyond.utils.beta import beta

    us, op = case["us"], case["op"]
    tus = us
    if op.startswith("beta") or case["type"] == "true":
        tus = target_us(dict(us=us, dt=0, kind="sun"))
    X = lab(tus, case["X"])
    out = {}
    for L in ("UTC", X):
        _CLONE["how"] = case.get("clone", "none") if L != "UTC" else "none"
        d = date_of(tus, L)
        if op == "raan2ltan":
            out[L] = float(ltan.raan2ltan(d, case["raan"], case["type"]))
        elif op == "ltan2raan":
            out[L] = float(ltan.ltan2raan(d, case["ltan"], case["type"]))
        elif op == "orb2ltan":
            # the wrapper taking an orbit (held in TEME here: it converts to EME2000 itself)
            o = cart_orbit(case["el"], d, None).copy(frame="TEME")
            out[L] = float(ltan.orb2ltan(o, case["type"]))
            direct = float(ltan.raan2ltan(d, float(cart_orbit(case["el"], d, None).copy(form="keplerian").raan), case["type"]))
            if abs((out[L] - direct + 43200) % 86400 - 43200) > 1e-6:
                raise Violation("orb2ltan-wrapper", f"orb2ltan(orbit at {d}) = {out[L]!r}, raan2ltan of its RAAN = {direct!r}")
        else:
            out[L] = float(beta(cart_orbit(case["el"], d, None), "Sun" if op == "beta" else "Moon"))
    if not all(math.isfinite(v) for v in out.values()):
        raise Violation("non-finite", f"{op}: {out}")
    diff = out[X] - out["UTC"]
    if op in ("raan2ltan", "orb2ltan"):
        diff = (diff + 43200) % 86400 - 43200
        tol = 2e-4  # s: sidereal angle quantum (40 us of a double Julian date) + 2 us
    elif op == "ltan2raan":
        diff = tb.angdiff(out[X], out["UTC"])
        tol = 1.5e-8  # rad: the same quantum
    else:
        tol = 1e-9 if op == "beta" else 1e-8
    if abs(diff) > tol:
        raise Violation(f"{op.split('-')[0]}-label-dependent",
                        f"{op}({date_of(tus, X)}{', ' + case['type'] if 'ltan' in op else ''}) = {out[X]!r}, "
                        f"{out['UTC']!r} with the same instant labelled UTC (diff {diff:.3g}, tol {tol:.3g})")
    return dict(nt=True, cls=[f"eop:{t3.cfg()}", f"X:{X}", f"op:{op}"] + ([case["type"]] if "ltan" in op else []),
                ratio=abs(diff) / tol)


# ------------------------------------------------------------------ maneuvers (numerical propagation)

MAN_STEP = 60 * US


@st.composite
def man_case(draw, shard, tier):
    leaps = t3.leap_days()
    us = draw(gd.instants(leaps, lo_mjd=gd.LO_MJD + 3, hi_mjd=gd.HI_MJD - 3))
    if not gd.leap_free(us - US, us + 3 * 3600 * US, leaps):
        us += 2 * US_DAY
    X, Y = draw(label_pair())
    dt = draw(gd.uniform_int(15 * 60 * US, 90 * 60 * US))
    el = draw(go.elements(hyperbolic=False, emax_ell=0.2, rp_range=(1.06, 1.6)))

    def burn_offset():
        k = draw(st.integers(1, max(1, dt // MAN_STEP - 1)))
        d = draw(st.sampled_from([0, 1, -1, 30 * US]) | gd.mixed_int(-70 * US, 70 * US, 2))
        return max(5 * US, min(dt - 5 * US, k * MAN_STEP + d))

    mans = []
    for _ in range(draw(st.integers(1, 2))):
        mans.append(dict(kind="impulsive", off=burn_offset(), Z=iers.SCALES[draw(st.integers(0, 5))],
                         dv=[draw(go.uniform(-15.0, 15.0)) for _ in range(3)],
                         frame=draw(st.sampled_from(["TNW", "QSW", None]))))
    if draw(st.booleans()):
        mans.append(dict(kind="continuous", off=burn_offset(), dur=float(draw(st.integers(30, 600))),
                         Z=draw(st.sampled_from(["UTC", "TAI", "TT", "GPS", "TDB"])),
                         accel=[draw(go.uniform(-0.02, 0.02)) for _ in range(3)],
                         frame=draw(st.sampled_from(["TNW", "QSW", None]))))
    return dict(us=us, X=X, Y=Y, dt=dt, el=el, mans=mans)


def _man_off(m, Z):
    """A UT1 / TDB date is only good to 1 us: keep such burn instants 20 us away from the instants the
    integrator compares them with (step boundaries and the rk4 mid-points)."""
    off = m["off"]
    if inexact(Z):
        r = off % (30 * US)
        if r < 20:
            off += 20 - r
        elif r > 30 * US - 20:
            off -= 20 - (30 * US - r)
    return off


def run_man(case, X, Y, zlabels):
    from beyond.dates import timedelta
    from beyond.env.solarsystem import get_body
    from beyond.orbits.man import ContinuousMan, ImpulsiveMan
    from beyond.propagators.keplernum import KeplerNum

    us = case["us"]
    orb = cart_orbit(case["el"], date_of(us, Y), KeplerNum(timedelta(seconds=60), get_body("Earth")))
    mans = []
    for m, Z, Zreal in zip(case["mans"], zlabels, case["_zreal"]):
        when = date_of(us + _man_off(m, Zreal), Z)
        if m["kind"] == "impulsive":
            mans.append(ImpulsiveMan(when, m["dv"], frame=m["frame"]))
        else:
            mans.append(ContinuousMan(when, timedelta(seconds=m["dur"]), accel=m["accel"], frame=m["frame"]))
    orb.maneuvers = mans
    res = orb.propagate(date_of(us + case["dt"], X))
    return np.asarray(res.copy(form="cartesian").base, float), res.date


def check_man(case):
    us = case["us"]
    X, Y = lab(us + case["dt"], case["X"]), lab(us, case["Y"])
    if inexact(Y):
        Y = "GPS"  # the integrator steps epoch + k * 60 s in the epoch's own scale (C03: uniform scales)
    zl = [lab(us + m["off"], m["Z"]) for m in case["mans"]]
    if (X, Y) == ("UTC", "UTC") and set(zl) == {"UTC"}:
        zl[0] = "TT"
    case = dict(case, _zreal=zl)
    ref, rdate = run_man(case, "UTC", "UTC", ["UTC"] * len(zl))
    with cloned(case):
        got, gdate = run_man(case, X, Y, zl)
    desc = (f"KeplerNum(rk4, 60 s) epoch {date_of(us, Y)}, maneuvers "
            f"{[(m['kind'], str(date_of(us + _man_off(m, z), z))) for m, z in zip(case['mans'], zl)]}, "
            f"propagate({date_of(us + case['dt'], X)})")
    labels = (X, Y) + tuple(zl)
    dts = 2e-6 if inexact(*labels) else 0.0
    # a continuous burn whose start / stop moves by 1 us changes the velocity by accel x 1 us
    extra_v = sum(0.04 * 2e-6 for m in case["mans"] if m["kind"] == "continuous") if inexact(*zl) else 0.0
    ratio = compare_states(desc, got, ref, dts, kind="maneuver-label-dependent",
                           extra_pos=extra_v * case["dt"] / 1e6, extra_vel=extra_v + 1e-12)
    same_instant(desc, gdate, rdate, labels)
    near = any(min(m["off"] % MAN_STEP, MAN_STEP - m["off"] % MAN_STEP) <= 1 for m in case["mans"])
    cls = [f"eop:{t3.cfg()}", f"X:{X}", f"Y:{Y}"] + sorted({f"Z:{z}" for z in zl}) + sorted({m["kind"] for m in case["mans"]}) + clone_classes(case)
    if any(z != Y for z in zl):
        cls.append("maneuver-label-differs-from-epoch")
    if near:
        cls.append("burn-on-a-step-boundary(+-1us)")
    return dict(nt=any(z != Y for z in zl) or (X, Y) != ("UTC", "UTC"), cls=cls, ratio=ratio)


# ------------------------------------------------------------------ Clohessy-Wiltshire


@st.composite
def cw_case(draw, shard, tier):
    leaps = t3.leap_days()
    us = draw(gd.instants(leaps, lo_mjd=gd.LO_MJD + 3, hi_mjd=gd.HI_MJD - 3))
    if not gd.leap_free(us - US, us + 4 * 3600 * US, leaps):
        us += 2 * US_DAY
    X, Y = draw(label_pair())
    dt = draw(st.sampled_from([0, 1, 60 * US]) | gd.uniform_int(1, 3 * 3600 * US))
    mans = []
    for _ in range(draw(st.integers(0, 2))):
        mans.append(dict(kind="impulsive", off=draw(gd.uniform_int(1, 3 * 3600 * US)), Z=iers.SCALES[draw(st.integers(0, 5))],
                         dv=[draw(go.uniform(-1.0, 1.0)) for _ in range(3)]))
    if draw(st.integers(0, 2)) == 0:
        mans.append(dict(kind="continuous", off=draw(gd.uniform_int(1, 3 * 3600 * US)), dur=float(draw(st.integers(10, 900))),
                         Z=draw(st.sampled_from(["UTC", "TAI", "TT", "GPS", "TDB"])),
                         accel=[draw(go.uniform(-1e-3, 1e-3)) for _ in range(3)]))
    if mans and draw(st.integers(0, 3)) == 0:
        dt = mans[0]["off"]  # asked exactly at the burn
    return dict(us=us, X=X, Y=Y, dt=dt, mans=mans, sma=draw(go.uniform(6.7e6, 4.3e7)), ori=draw(st.sampled_from(["QSW", "TNW"])),
                x0=[draw(go.uniform(-2000.0, 2000.0)) for _ in range(3)] + [draw(go.uniform(-2.0, 2.0)) for _ in range(3)])


def run_cw(case, X, Y, zlabels, offs, dt):
    from beyond.dates import timedelta
    from beyond.frames.frames import HillFrame
    from beyond.orbits import Orbit
    from beyond.orbits.man import ContinuousMan, ImpulsiveMan
    from beyond.propagators.cw import ClohessyWiltshire

    us = case["us"]
    frame = HillFrame(orientation=case["ori"])
    orb = Orbit(list(case["x0"]), date_of(us, Y), "cartesian", frame, ClohessyWiltshire(case["sma"], frame=frame))
    mans = []
    for m, Z, off in zip(case["mans"], zlabels, offs):
        when = date_of(us + off, Z)
        if m["kind"] == "impulsive":
            mans.append(ImpulsiveMan(when, m["dv"]))
        else:
            mans.append(ContinuousMan(when, timedelta(seconds=m["dur"]), accel=m["accel"]))
    if mans:
        orb.maneuvers = mans
    res = orb.propagate(date_of(us + dt, X))
    return np.asarray(res.base, float), res.date


def check_cw(case):
    us = case["us"]
    X, Y = lab(us + case["dt"], case["X"]), lab(us, case["Y"])
    if inexact(Y):
        Y = "GPS"  # the legs are chained with date + (date' - date): reading arithmetic in the epoch's scale
    zl = [lab(us + m["off"], m["Z"]) for m in case["mans"]]
    offs = [m["off"] for m in case["mans"]]
    dt = case["dt"]
    if inexact(X, *zl):
        # a UT1 / TDB date is good to 1 us: keep the asked instant 20 us away from the burn edges it is compared with
        edges = []
        for m in case["mans"]:
            edges += [m["off"]] + ([m["off"] + int(m["dur"] * US)] if m["kind"] == "continuous" else [])
        for _ in range(4):
            if any(abs(dt - e) < 20 for e in edges):
                dt += 40
    if (X, Y) == ("UTC", "UTC") and (not zl or set(zl) == {"UTC"}):
        X = "TT"
    ref, rdate = run_cw(case, "UTC", "UTC", ["UTC"] * len(zl), offs, dt)
    with cloned(case):
        got, gdate = run_cw(case, X, Y, zl, offs, dt)
    desc = (f"ClohessyWiltshire(sma {case['sma']:.0f}, {case['ori']}) epoch {date_of(us, Y)}, maneuvers "
            f"{[(m['kind'], str(date_of(us + o, z))) for m, o, z in zip(case['mans'], offs, zl)]}, "
            f"propagate({date_of(us + dt, X)})")
    labels = (X, Y) + tuple(zl)
    fuzzy = inexact(*labels)
    # 1 us on a burn instant moves the state by dv x 1 us (impulse) / accel x duration x 1 us (thrust)
    kick = sum(float(np.linalg.norm(m["dv"])) if m["kind"] == "impulsive" else float(np.linalg.norm(m["accel"])) * m["dur"]
               for m in case["mans"])
    speed = float(np.linalg.norm(ref[3:])) + kick
    extra_pos = (speed + kick) * 4e-6 if fuzzy else speed * 1e-9
    n = math.sqrt(MU_E / case["sma"] ** 3)
    extra_vel = (1e-3 * 2 + 3 * n * speed) * 4e-6 if fuzzy else 1e-12
    ratio = compare_states(desc, got, ref, 0.0, kind="cw-label-dependent", extra_pos=extra_pos, extra_vel=extra_vel)
    same_instant(desc, gdate, rdate, labels)
    cls = [f"eop:{t3.cfg()}", f"X:{X}", f"Y:{Y}", f"mans:{len(zl)}"] + sorted({f"Z:{z}" for z in zl})
    if any(z != Y for z in zl):
        cls.append("maneuver-label-differs-from-epoch")
    if any(o < dt for o in offs):
        cls.append("asked-after-a-burn")
    return dict(nt=True, cls=cls, ratio=ratio)


# ------------------------------------------------------------------ JPL ephemeris and body-centred frames

JPL_BODIES = ["Moon", "Sun", "EarthBarycenter", "MarsBarycenter", "Mars", "Mercury", "VenusBarycenter", "JupiterBarycenter"]
JPL_FRAMES = ["Moon", "Sun", "Mars", "EarthBarycenter", "SolarSystemBarycenter"]
JPL_LO_MJD, JPL_HI_MJD = 51546, gd.HI_MJD - 12


def setup_jpl(shard):
    env.eop("real")
    t3._CFG["name"] = "real"
    env.jpl()
    from beyond.env import jpl

    jpl.create_frames()


@st.composite
def jpl_case(draw, shard, tier):
    us = draw(gd.instants(t3.leap_days(), lo_mjd=JPL_LO_MJD, hi_mjd=JPL_HI_MJD))
    if draw(st.integers(0, 3)) == 0:
        # inside the last 70 s of a UTC day: TAI / TT / TDB (and GPS from 19 s on) already read the next day
        us = (us // US_DAY + 1) * US_DAY - draw(gd.mixed_int(1, 70 * US, 2))
        us = gd.push_out_of_leap_windows(us, t3.leap_days())
    X = iers.SCALES[draw(st.integers(1, 5))]
    op = draw(st.sampled_from(["get_orbit", "get_orbit", "frame", "propagator"]))
    case = dict(us=us, X=X, op=op, body=draw(st.sampled_from(JPL_BODIES)))
    if op == "frame":
        case["frame"] = draw(st.sampled_from(JPL_FRAMES))
        case["el"] = draw(go.elements(hyperbolic=False, emax_ell=0.5, rp_range=(1.05, 6.0)))
    return case


def check_jpl(case):
    from beyond.env import jpl
    from beyond.orbits import StateVector

    us, op = case["us"], case["op"]
    X = lab(us, case["X"])
    out = {}
    for L in ("UTC", X):
        _CLONE["how"] = case.get("clone", "none") if L != "UTC" else "none"
        d = date_of(us, L)
        if op == "get_orbit":
            res = jpl.get_orbit(case["body"], d)
        elif op == "propagator":
            if case["body"] in ("Moon", "Sun", "Mars", "Mercury"):
                res = jpl.get_body(case["body"]).propagator.propagate(d)  # Body from the .tpc file
            else:
                res = jpl.get_propagator(case["body"]).propagate(d)
        else:
            res = StateVector(go.cart_of(case["el"]), d, "cartesian", "EME2000").copy(frame=case["frame"])
        out[L] = (np.asarray(res.copy(form="cartesian").base, float), res.date, str(res.frame))
    (g, gdate, gframe), (r, rdate, rframe) = out[X], out["UTC"]
    what = f"{op}({case['body'] if op != 'frame' else 'EME2000 -> ' + case['frame']}, {date_of(us, X)})"
    if gframe != rframe:
        raise Violation("jpl-frame", f"{what}: result in {gframe}, {rframe} for the UTC label")
    # the segments are evaluated at a TDB Julian date held in a double (one ulp = 40 us); the TDB reading
    # reached from two labels may differ by 1 us and flip its last bit
    speed = float(np.linalg.norm(r[3:])) if op != "frame" else 6.0e4
    acc = 0.02 if op != "frame" else 0.06
    window = 1.5 * JD_QUANTUM + (2e-6 if inexact(X) else 0.0)
    ratio = compare_states(what, g, r, 0.0, kind=f"jpl-{op}-label-dependent", extra_pos=speed * window,
                           extra_vel=acc * window + 1e-9)
    same_instant(what, gdate, rdate, (X,))
    cls = [f"eop:{t3.cfg()}", f"X:{X}", f"op:{op}", f"body:{case['body']}" if op != "frame" else f"frame:{case['frame']}"]
    if straddle(us, (X,)):
        cls.append("label-reads-the-next-day")
    return dict(nt=True, cls=cls, ratio=ratio)


# ------------------------------------------------------------------ station events (visibility, stations_listeners)


@st.composite
def station_events_case(draw, shard, tier):
    leaps = t3.leap_days()
    us = draw(gd.instants(leaps, lo_mjd=gd.LO_MJD + 3, hi_mjd=gd.HI_MJD - 3))
    if not gd.leap_free(us - US, us + US_DAY, leaps):
        us += 2 * US_DAY
    X, Y = draw(label_pair())
    rp = 6378136.3 + draw(go.uniform(5e5, 1.4e6))
    e = 10 ** draw(go.uniform(-3, -1.7))
    M = draw(go.uniform(0, 2 * math.pi))
    el = dict(body="Earth", a=rp / (1 - e), e=e, i=draw(go.uniform(0.87, 1.75)), raan=draw(go.uniform(0, 2 * math.pi)),
              argp=draw(go.uniform(0, 2 * math.pi)), anom=M, nu=tb.E2nu(tb.solve_kepler_E(M, e), e))
    return dict(us=us, X=X, Y=Y, X2=iers.SCALES[draw(st.integers(0, 5))], el=el, step=float(draw(st.integers(60, 180))),
                n=draw(st.integers(40, 110)), at=draw(go.uniform(0.1, 0.6)), dlat=draw(go.uniform(-3.0, 3.0)),
                dlon=draw(go.uniform(-5.0, 5.0)), alt=float(draw(st.integers(0, 2500))),
                how=draw(st.sampled_from(["visibility", "listeners"])))


_STATIONS = {}


def _station_for(case):
    """Station near the ground track (sub-satellite point of the all-UTC orbit at a drawn fraction of the span)."""
    from beyond.propagators.kepler import Kepler

    from . import c11

    key = t3_canon(case)
    if key not in _STATIONS:
        us = case["us"]
        when = date_of(us + 60 * US + int(case["at"] * case["n"] * case["step"]) * US, "UTC")
        p = np.asarray(cart_orbit(case["el"], date_of(us, "UTC"), Kepler()).propagate(when).copy(frame="ITRF", form="cartesian").base,
                       float)[:3]
        lat = max(-89.0, min(89.0, round(math.degrees(math.atan2(p[2], math.hypot(p[0], p[1]))) + case["dlat"], 6)))
        lon = round((math.degrees(math.atan2(p[1], p[0])) + case["dlon"] + 180.0) % 360.0 - 180.0, 6)
        _STATIONS[key] = c11.station(_SHARD[0], lat, lon, case["alt"])
    return _STATIONS[key]


_SHARD = [0]


def t3_canon(case):
    import json

    return json.dumps([case["us"], case["el"], case["at"], case["dlat"], case["dlon"], case["alt"], case["n"], case["step"]],
                      sort_keys=True)


def setup_station(shard):
    setup(shard)
    _SHARD[0] = shard


def run_station_events(case, X, Y, X2, sta):
    from beyond.dates import timedelta
    from beyond.propagators.kepler import Kepler
    from beyond.propagators.listeners import stations_listeners

    us, step = case["us"], int(case["step"]) * US
    orb = cart_orbit(case["el"], date_of(us, Y), Kepler())
    start = date_of(us + 60 * US, X)
    stop = date_of(us + 60 * US + case["n"] * step + step // 2, X2)
    kw = dict(start=start, stop=stop, step=timedelta(microseconds=step))
    if case["how"] == "visibility":
        it = sta.visibility(orb, events=True, **kw)
    else:
        it = orb.iter(listeners=stations_listeners(sta), **kw)
    events, nsamples = [], 0
    for o in it:
        if o.event is None:
            nsamples += 1
        else:
            c = o.copy(frame="EME2000", form="cartesian")
            events.append((str(o.event.info), o.date, np.asarray(c.base, float)))
    return events, nsamples


def check_station_events(case):
    us = case["us"]
    X, Y, X2 = lab(us, case["X"]), lab(us, case["Y"]), lab(us, case["X2"])
    if inexact(X):
        X = "TAI"  # the grid start + k * step is reading arithmetic: uniform scales only (C03)
    sta = _station_for(case)
    ref, nref = run_station_events(case, "UTC", "UTC", "UTC", sta)
    with cloned(case):
        got, ngot = run_station_events(case, X, Y, X2, sta)
    what = (f"{case['how']} of station {sta.name}: Kepler orbit epoch {date_of(us, Y)}, start {date_of(us + 60 * US, X)}, "
            f"stop labelled {X2}")
    if [e[0] for e in got] != [e[0] for e in ref] or ngot != nref:
        raise Violation("station-events-differ", f"{what}: events {[e[0] for e in got]} and {ngot} samples; the all-UTC run "
                                                 f"gives {[e[0] for e in ref]} and {nref} samples")
    tol = 3 + (2 if inexact(X, Y, X2) else 0)
    worst = 0
    for (name, gd_, gs), (_, rd, rs) in zip(got, ref):
        off = abs(t3.td_us(gd_ - rd))
        worst = max(worst, off)
        if off > tol:
            raise Violation("station-event-date-label-dependent",
                            f"{what}: {name} at {gd_}, the all-UTC run finds it at {rd} ({off} us apart)")
        compare_states(f"{what}: state at {name}", gs, rs, tol * 1e-6, kind="station-event-state-label-dependent")
    return dict(nt=len(ref) > 0, cls=[f"eop:{t3.cfg()}", f"X:{X}", f"Y:{Y}", f"X2:{X2}", case["how"], f"events:{min(len(ref), 6)}"],
                ratio=worst / tol)


# ------------------------------------------------------------------ facets

FACETS = [
    Facet("sgp4", with_clone(lambda s, t: prop_case(s, t, "sgp4")), check_prop, setup=setup,
          rule="every case ((X, Y) != (UTC, UTC) by construction)", quick=(4, 150), thorough=(16, 900)),
    Facet("sgp4beta", with_clone(lambda s, t: prop_case(s, t, "sgp4beta")), check_prop, setup=setup,
          rule="every case ((X, Y) != (UTC, UTC) by construction)", quick=(4, 100), thorough=(8, 1000)),
    Facet("propagators", with_clone(prop_case), check_prop, setup=setup,
          rule="every case ((X, Y) != (UTC, UTC) by construction)", quick=(8, 120), thorough=(32, 600)),
    Facet("maneuvers", with_clone(man_case), check_man, setup=setup,
          rule="some maneuver date is labelled differently from the epoch, or (X, Y) != (UTC, UTC)",
          quick=(8, 25), thorough=(16, 250)),
    Facet("cw", with_clone(cw_case), check_cw, setup=setup,
          rule="every case (some label is not UTC by construction)", quick=(4, 150), thorough=(16, 1000)),
    Facet("jpl", with_clone(jpl_case), check_jpl, setup=setup_jpl,
          rule="every case (label is never UTC)", quick=(4, 100), thorough=(16, 800)),
    Facet("station_events", with_clone(station_events_case), check_station_events, setup=setup_station, shrink_quick=False,
          rule="at least one AOS / LOS / MAX event in the all-UTC run", quick=(6, 4), thorough=(16, 25)),
    Facet("frames", with_clone(frame_case), check_frames, setup=setup_station,
          rule="source frame differs from target frame", quick=(8, 300), thorough=(32, 1500)),
    Facet("interp", with_clone(interp_case), check_interp, setup=setup,
          rule="some label is not UTC", quick=(8, 150), thorough=(16, 1200)),
    Facet("tle_writer", with_clone(tle_case), check_tle, setup=setup,
          rule="every case (epoch label is never UTC)", quick=(4, 300), thorough=(8, 2000)),
    Facet("events", with_clone(events_case), check_events, setup=setup_ccsds,
          rule="every case ((X, Y) != (UTC, UTC) by construction)", quick=(6, 40), thorough=(16, 100), shrink_quick=False),
    Facet("utils", with_clone(utils_case), check_utils, setup=setup,
          rule="every case (label is never UTC)", quick=(4, 250), thorough=(8, 1500)),
    Facet("ccsds_multi", with_clone(ccsds_multi_case), check_ccsds_multi, setup=setup_ccsds,
          rule="dates of one message carry different labels (segments, paths or maneuvers)", quick=(4, 150), thorough=(8, 1500)),
    Facet("ccsds", with_clone(ccsds_case), check_ccsds, setup=setup_ccsds,
          rule="every case (some date is not labelled UTC, or labels are mixed)", quick=(4, 250), thorough=(8, 1500)),
]
