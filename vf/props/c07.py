"""C07 - SGP4 propagation equals the reference SGP4 theory."""

import datetime as _dt
import math

from hypothesis import strategies as st

from ..core import Facet, Violation
from ..gen import tles as gt
from ..oracles import tlefmt as tf

RULE = ("TLE drawn on the printed grid inside the property's domain (vf/gen/tles.py: sgp4_fields) and "
        "formatted by the oracle's formatter; target = epoch + offset on the microsecond grid, "
        "UTC-labelled; non-trivial = |offset| > 1 min and the reference returned no error code.")
ASSUMPTIONS = [
    "reference = sgp4.api.Satrec.twoline2rv(l1, l2, WGS72).sgp4(jd, fr) (Vallado's C++ code, accelerated build), "
    "called directly on the oracle-formatted text with jd = integer day + 0.5 and fr = exact fraction of day",
    "tolerances are the property's: wrapper |dr| <= |v| x 50 us + 1 mm, |dv| <= |a| x 50 us + 1e-6 m/s, or the "
    "element sets at which the reference itself moves by more than twice that within 5/20/50 us "
    "(reference-singular), or by more than a tenth of it when one of its inputs is nudged by one ulp "
    "(reference-ill-conditioned: deep-space periodics divide by sin i, i within ~1e-3 deg of 180 deg), are "
    "labelled, not compared and not counted as non-trivial; "
    "native 1 cm",
    "target dates and epochs UTC-labelled (label effects are C04's subject); EOP configuration 'zero' "
    "(TEME output does not depend on EOP; Date construction needs TAI-UTC)",
    "element sets for which the reference reports an error code (decay, eccentricity out of range) are "
    "outside the quantifier: counted, not compared",
    "native facet only where the reference record has method 'n' and perigee >= 220 km (isimp = 0); a 1 m "
    "band around the 220 km switch is skipped; target dates that lie beyond a date at which the reference itself "
    "reports decay (128 samples between epoch and target) are outside the quantifier",
    "native velocity tolerance = 1 cm x |v|/|r| (about 1.1e-5 m/s in LEO): the statement names only '1 cm'",
]
LEVEL_TEXT = ("Generated-input search (Hypothesis) over element sets and target dates against the reference "
              "SGP4/SDP4 implementation called directly; no absence claim beyond the inputs explored.")
LEVEL_NOTE = ("Randomised exploration of the element/offset space with mass on the model switches "
              "(225 min, e < 1e-4, perigee floors 98/156/220 km, i = 0/180, B* = 0).")
TECHNIQUE = "property-based testing (Hypothesis) against the reference implementation called directly"

MJD_T0 = _dt.datetime(1858, 11, 17)
MU_KM = 398600.8
DAY_US = 86400 * 10**6
SPAN_US = 30 * DAY_US


def _eop(shard):
    from .. import env

    env.eop("zero")


# ------------------------------------------------------------------ strategies

_DT = gt._mix(
    (8, gt.uniform_int(-SPAN_US, SPAN_US)),
    (2, gt.uniform_int(-DAY_US, DAY_US)),
    (1, gt.uniform_int(-3600 * 10**6, 3600 * 10**6)),
    (1, st.integers(-SPAN_US, SPAN_US)),  # Hypothesis' own bias: 0 and small magnitudes
    (1, st.sampled_from([0, 1, -1, SPAN_US, -SPAN_US, DAY_US, -DAY_US, 60 * 10**6, 43200 * 10**6 - 1])),
)


def case_strategy(regime, modes=("direct",), pair=False):
    @st.composite
    def strat(draw):
        c = dict(tle=draw(gt.sgp4_fields(regime)), dt_us=draw(_DT), mode=draw(st.sampled_from(modes)))
        if pair:
            c["tle2"] = draw(gt.sgp4_fields("any"))
            c["dt2_us"] = draw(_DT)
        return c

    s = strat()
    return lambda shard, tier: s


# ------------------------------------------------------------------ reference


def epoch_us(f):
    """(MJD, microsecond of day) of the epoch: the 1e-8 day grid is a multiple of 864 us."""
    day_i, day_f = divmod(f["eday"], 10**8)
    return tf.mjd_of_civil(tf.year4(f["eyy"]), 1, 1) + day_i - 1, day_f * 864


def target(f, dt_us):
    mjd, us = epoch_us(f)
    d, us = divmod(us + dt_us, DAY_US)
    return mjd + d, us


def to_datetime(mjd, us):
    return MJD_T0 + _dt.timedelta(days=mjd, microseconds=us)


def reference(f, mjd, us):
    """(error code, r [m], v [m/s], record) from the reference implementation."""
    import numpy as np
    from sgp4.api import WGS72, Satrec

    l1, l2 = tf.format_lines(f)
    sat = Satrec.twoline2rv(l1, l2, WGS72)
    err, r, v = sat.sgp4(mjd + 2400000.5, us / DAY_US)
    return err, np.array(r) * 1000.0, np.array(v) * 1000.0, sat


def classes(f, dt_us, sat):
    c = gt.sgp4_classes(f)
    if dt_us < 0:
        c.append("before-epoch")
    if abs(dt_us) > DAY_US:
        c.append("|dt|>1d")
    if abs(dt_us) > 10 * DAY_US:
        c.append("|dt|>10d")
    if sat.method == "d":
        c.append("ref:deep")
    return c


def compare(sv, date_dt, rr, rv, pos_tol, vel_tol, what):
    """sv against the reference state; returns worst error/tolerance."""
    import numpy as np

    got = np.asarray(sv.base, float)
    if got.shape != (6,) or not np.all(np.isfinite(got)):
        raise Violation(f"{what}:non-finite", f"result {got.tolist()}")
    if sv.frame.name != "TEME" or sv.form.name != "cartesian":
        raise Violation(f"{what}:frame", f"result is {sv.form.name} in {sv.frame.name}")
    if sv.date.datetime != date_dt or str(sv.date.scale) != "UTC":
        raise Violation(f"{what}:date", f"result dated {sv.date}, asked {date_dt}")
    dr = float(np.linalg.norm(got[:3] - rr))
    dv = float(np.linalg.norm(got[3:] - rv))
    ratio = max(dr / pos_tol, dv / vel_tol)
    if dr > pos_tol or dv > vel_tol:
        raise Violation(f"{what}:state", f"|dr| = {dr:.6g} m (tol {pos_tol:.3g}), |dv| = {dv:.6g} m/s "
                        f"(tol {vel_tol:.3g}); reference r = {rr.tolist()}", dr=dr, dv=dv)
    return ratio


def wrapper_tols(sat, dt_us, rr, rv):
    """The property's bound "within the library's time resolution (|v| x 50 us)": |v| x 50 us for the
    position, |a| x 50 us for the velocity (plus 1 mm / 1e-6 m/s of arithmetic).
    The reference is also sampled at +-5, +-20, +-50 us around the target: where it moves by more
    than twice |v| x 50 us in such an interval the theory is singular (deep-space periodics divide
    by sin i: at i = 180 deg the reference moves by decimetres per nanosecond) and no bound of this
    kind means anything - the third value returned is then True.
    Returns (position tolerance, velocity tolerance, singular)."""
    import numpy as np

    r = float(np.linalg.norm(rr))
    v = float(np.linalg.norm(rv))
    pos = v * 50e-6
    vel = MU_KM * 1e9 / r**2 * 50e-6
    spos = svel = 0.0
    for d in (50, -50, 20, -20, 5, -5):
        err, r2, v2 = sat.sgp4_tsince((dt_us + d) / 60e6)
        if err == 0:
            spos = max(spos, float(np.linalg.norm(np.array(r2) * 1000.0 - rr)))
            svel = max(svel, float(np.linalg.norm(np.array(v2) * 1000.0 - rv)))
    return max(pos, spos) + 1e-3, max(vel, svel) + 1e-6, spos > 2 * pos or svel > 2 * vel


def reference_noise(sat, dt_us, rr, rv):
    """How far the reference state moves when its inputs are nudged by one unit in the last place:
    the record is re-initialised through sgp4init with each of e, i, raan, argp, M, n moved by
    +-1 ulp (and once unchanged).  Round-off inside an implementation acts like such nudges, so
    two correct implementations cannot be expected to agree better than this.
    Almost everywhere the answer is micrometres; for deep-space element sets within ~1e-3 deg of
    i = 180 deg (the lunar-solar periodics are divided by sin i) it is decimetres to hectometres.
    Returns (position noise [m], velocity noise [m/s])."""
    import numpy as np
    from sgp4.api import WGS72, Satrec

    epoch = (sat.jdsatepoch - 2433281.5) + sat.jdsatepochF
    base = dict(ecco=sat.ecco, argpo=sat.argpo, inclo=sat.inclo, mo=sat.mo, no_kozai=sat.no_kozai, nodeo=sat.nodeo)
    trials = [dict(base)]
    for k, x in base.items():
        for sgn in (1.0, -1.0):
            t = dict(base)
            t[k] = math.nextafter(x, sgn * math.inf) if abs(x) > 1.0 or k in ("ecco", "no_kozai") else x + sgn * 2.3e-16
            if k == "ecco" and not (0.0 <= t[k] < 1.0):
                continue
            trials.append(t)
    npos = nvel = 0.0
    for t in trials:
        s = Satrec()
        s.sgp4init(WGS72, "i", sat.satnum, epoch, sat.bstar, sat.ndot, sat.nddot, t["ecco"], t["argpo"], t["inclo"],
                   t["mo"], t["no_kozai"], t["nodeo"])
        err, r2, v2 = s.sgp4_tsince(dt_us / 60e6)
        if err == 0:
            npos = max(npos, float(np.linalg.norm(np.array(r2) * 1000.0 - rr)))
            nvel = max(nvel, float(np.linalg.norm(np.array(v2) * 1000.0 - rv)))
    return npos, nvel


def comparable(sat, dt_us, rr, rv):
    """(position tolerance, velocity tolerance, label or None): label names why the property's bound
    cannot be decided at this input (tolerances are then infinite)."""
    ptol, vtol, singular = wrapper_tols(sat, dt_us, rr, rv)
    if singular:
        return float("inf"), float("inf"), "reference-singular"
    npos, nvel = reference_noise(sat, dt_us, rr, rv)
    if npos > 0.1 * ptol or nvel > 0.1 * vtol:
        return float("inf"), float("inf"), "reference-ill-conditioned"
    return ptol, vtol, None


# ------------------------------------------------------------------ wrapper


def check_wrapper(case):
    from beyond.dates import Date
    from beyond.io.tle import Tle

    f = case["tle"]
    mjd, us = target(f, case["dt_us"])
    date_dt = to_datetime(mjd, us)
    err, rr, rv, sat = reference(f, mjd, us)
    cls = classes(f, case["dt_us"], sat)
    orb = Tle(tf.format_text(f)).orbit()
    date = Date(date_dt)
    if err != 0:
        # outside the quantifier: the wrapper may raise or return anything
        try:
            orb.propagate(date)
        except Exception:
            pass
        return dict(nt=False, cls=cls + [f"ref-error-{err}"])
    sv = _propagate(orb, date, case, f)
    # where the reference is not a continuous function of time at the 50 us scale, or moves by more
    # than a tenth of the bound when an input changes by one ulp, "within the time resolution"
    # cannot be decided: only frame / date / finiteness of the result are checked there
    ptol, vtol, undecidable = comparable(sat, case["dt_us"], rr, rv)
    if undecidable:
        cls.append(undecidable)
    ratio = compare(sv, date_dt, rr, rv, ptol, vtol, what="wrapper")
    return dict(nt=abs(case["dt_us"]) > 60 * 10**6 and not undecidable,
                cls=cls + [f"mode:{case.get('mode', 'direct')}"], ratio=ratio)


def _propagate(orb, date, case, f):
    from beyond.io.tle import Tle
    from beyond.propagators.sgp4 import Sgp4

    mode = case.get("mode", "direct")
    if mode == "direct":
        return orb.propagate(date)
    if mode == "timedelta":
        return orb.propagate(_dt.timedelta(microseconds=case["dt_us"]))
    if mode == "copy":
        return orb.copy().propagate(date)
    if mode == "twice":
        # same orbit, another date first: the initialised record must not keep anything of it
        orb.propagate(date + _dt.timedelta(days=1.5))
        return orb.propagate(date)
    if mode == "form":
        # mean elements in another form: the orbit setter regenerates the TLE from a converted copy
        return orb.copy(form="keplerian_mean").propagate(date)
    if mode == "rebind":
        # one propagator object serving two orbits in turn: A, then B, then A again
        from beyond.dates import Date

        other = Tle(tf.format_text(case["tle2"])).orbit()
        prop = Sgp4()
        orb.propagator = prop
        other.propagator = prop
        first = orb.propagate(date)
        mjd2, us2 = target(case["tle2"], case["dt2_us"])
        err2, rr2, rv2, sat2 = reference(case["tle2"], mjd2, us2)
        d2 = to_datetime(mjd2, us2)
        if err2 == 0:
            sv2 = other.propagate(Date(d2))
            p2, v2, _ = comparable(sat2, case["dt2_us"], rr2, rv2)
            compare(sv2, d2, rr2, rv2, p2, v2, what="wrapper-rebind")
        else:
            try:
                other.propagate(Date(d2))
            except Exception:
                pass
        again = orb.propagate(date)
        import numpy as np

        if not np.array_equal(np.asarray(first.base), np.asarray(again.base)):
            raise Violation("wrapper-rebind:history", "the same orbit and date gave another state after the "
                            "propagator had served another orbit")
        return again
    raise ValueError(mode)


# ------------------------------------------------------------------ native


def decayed_en_route(sat, dt_us, samples=128):
    """True if the reference reports an error (decay, negative mean motion ...) anywhere between
    the epoch and the target.  With extreme drag the drag polynomial of SGP4 passes through zero
    - the reference flags those dates as decayed - and then grows without bound: beyond that
    point the reference returns error code 0 again with radii of 1e4 ... 1e11 km, numbers whose
    last digits are round-off amplified by > 1e15.  Such dates are not states of the theory."""
    tmin = dt_us / 60e6
    for k in range(1, samples):
        err, _, _ = sat.sgp4_tsince(tmin * k / samples)
        if err != 0:
            return True
    return False



def check_native(case):
    from beyond.dates import Date
    from beyond.io.tle import Tle
    from beyond.propagators.sgp4beta import Sgp4Beta

    f = case["tle"]
    mjd, us = target(f, case["dt_us"])
    date_dt = to_datetime(mjd, us)
    err, rr, rv, sat = reference(f, mjd, us)
    cls = classes(f, case["dt_us"], sat)
    perigee_km = sat.altp * sat.radiusearthkm
    if err != 0:
        return dict(nt=False, cls=cls + [f"ref-error-{err}"])
    if sat.method != "n" or perigee_km < 220.001:
        # the reference is not in its full near-Earth model here (or within 1 m of the switch)
        return dict(nt=False, cls=cls + ["outside-native-domain"])
    if decayed_en_route(sat, case["dt_us"]):
        return dict(nt=False, cls=cls + ["decayed-en-route"])
    orb = Tle(tf.format_text(f)).orbit()
    prop = Sgp4Beta()
    prop.orbit = orb
    if case.get("mode") == "timedelta":
        sv = prop.propagate(_dt.timedelta(microseconds=case["dt_us"]))
    else:
        sv = prop.propagate(Date(date_dt))
    import numpy as np

    # "the same state within 1 cm": the velocity is held to the same displacement at the orbital rate
    ratio = compare(sv, date_dt, rr, rv, 1e-2, 1e-2 * float(np.linalg.norm(rv) / np.linalg.norm(rr)), what="native")
    if perigee_km < 230:
        cls.append("perigee<230km")
    return dict(nt=abs(case["dt_us"]) > 60 * 10**6, cls=cls, ratio=ratio)


# ------------------------------------------------------------------ histories


HIST_OPS = ["attach", "attach", "attach", "orbit_propagate", "new", "copy", "sweep",
            "scribble", "scribble", "repeat", "repeat", "edit", "edit", "bad_attach", "clone"]
# metadata of an element set: not in the six-element array, but part of what is propagated (bstar) or
# of the text the wrapper regenerates (the others)
META_FIELDS = ["bstar", "bstar", "bstar", "ndot", "nddot", "cat", "desig", "rev", "elnum"]
SCRIBBLES = ["zero", "dv", "form", "frame"]
_HIST_DT = gt._mix((6, gt.uniform_int(-3 * DAY_US, 3 * DAY_US)), (2, gt.uniform_int(-SPAN_US, SPAN_US)),
                   (1, st.sampled_from([0, 60 * 10**6, -DAY_US])))


@st.composite
def history_case(draw):
    """2-3 element sets, 2-3 propagator objects of each kind, 3-10 operations.  The operation
    plan comes from one uniform draw (six decimal digits per step): Hypothesis likes to copy
    one step's draws over another's, which would make all steps alike."""
    n = draw(st.integers(2, 3))
    tles = [draw(gt.sgp4_fields("native")) for _ in range(n)]
    if draw(st.integers(0, 1)):
        # successive element sets of ONE object: same catalogue number and designator
        for f in tles[1:]:
            f["cat"], f["desig"] = tles[0]["cat"], tles[0]["desig"]
    variants = None
    if draw(st.integers(0, 2)) == 0:
        # variants of ONE element set: same epoch and six elements, ONE metadata field different in each
        # (a drag sensitivity study, a renumbered object, the next element-set number ...)
        variants = []
        for k in range(1, n):
            field = draw(st.sampled_from(META_FIELDS))
            tles[k] = dict(tles[0])
            _vary(tles[k], field, draw(st.integers(0, 999)))
            variants.append(field)
    nops = draw(st.integers(3, 10))
    plan = draw(gt.uniform_int(0, 10**60 - 1))
    ops = []
    for k in range(nops):
        r = plan // 10 ** (6 * k) % 10**6
        ops.append(dict(op=HIST_OPS[r % 15], kind=("wrapper", "native")[r // 15 % 2], prop=r // 30 % 3,
                        tle=r // 90 % 3, how=SCRIBBLES[r // 270 % 4], spell=("date", "timedelta")[r // 1080 % 2],
                        field=META_FIELDS[r // 2160 % 9], val=draw(st.integers(0, 999)), dt_us=draw(_HIST_DT)))
    return dict(tles=tles, nprops=draw(st.integers(2, 3)), ops=ops, variants=variants)


def _vary(f, field, val):
    """Give ONE metadata field of the field set `f` another value (deterministic in `val`)."""
    if field == "bstar":
        old = f["bstar"]
        new = dict(s=-1 if val % 5 == 0 else 1, m=0 if val % 7 == 0 else 10000 + val * 89 % 90000, x=-3 - val % 4)
        if (new["m"], new["s"] if new["m"] else 1, new["x"] if new["m"] else 0) == (
                old["m"], old["s"] if old["m"] else 1, old["x"] if old["m"] else 0):
            new["m"] = 54321
        if new["m"] == 0:
            new.update(s=1, x=0)
        f["bstar"] = new
    elif field == "ndot":
        f["ndot"] = (f["ndot"] + 1 + val * 97) % 99999
    elif field == "nddot":
        f["nddot"] = dict(s=1, m=10000 + val * 53 % 90000, x=-5 - val % 4) if f["nddot"]["m"] == 0 or val % 2 else dict(s=1, m=0, x=0)
    elif field == "cat":
        f["cat"] = (f["cat"] + 1 + val) % 100000
    elif field == "desig":
        f["desig"] = dict(yy=(60 + val) % 100, launch=1 + val % 999, piece="ABC"[val % 3])
    elif field == "rev":
        f["rev"] = (f["rev"] + 1 + val * 13) % 100000
    elif field == "elnum":
        f["elnum"] = (f["elnum"] + 1 + val) % 10000


def _apply_meta(orb, f):
    """Write the metadata of field set `f` on the orbit IN PLACE (what a caller does to prepare the next
    element set from the one he has)."""
    orb.bstar = float(tf.exp_value(f["bstar"]))
    orb.ndot = f["ndot"] / 1e8 * 2
    orb.ndotdot = float(tf.exp_value(f["nddot"])) * 6
    orb.norad_id = f["cat"]
    orb.cospar_id = tf.cospar(f)
    orb.revolutions = f["rev"]
    orb.element_nb = f["elnum"]


def check_history(case):
    """Interprets the operation list on fresh objects; after EVERY operation every propagator that
    has an orbit attached is asked for the current probe instant and must give a NEW object holding
    the reference state of the element set currently attached to it.

    'scribble' changes the latest result of one propagator in place (zero it, add a dv, change its
    form, change its frame - what a caller does with a state it was given) and 'repeat' does
    nothing: both leave the probe instant where it was, so the sweep that follows asks every
    propagator for the SAME instant again (spelled as a Date or as a timedelta from the epoch)."""
    import numpy as np
    from beyond.dates import Date
    from beyond.io.tle import Tle
    from beyond.propagators.sgp4 import Sgp4
    from beyond.propagators.sgp4beta import Sgp4Beta

    tles = [dict(f) for f in case["tles"]]  # the model: what each orbit holds NOW
    n = len(tles)
    orbits = [Tle(tf.format_text(f)).orbit() for f in tles]
    klass = dict(wrapper=Sgp4, native=Sgp4Beta)
    props = {k: [klass[k]() for _ in range(case["nprops"])] for k in klass}
    attached = {k: [None] * case["nprops"] for k in klass}
    attached_obj = {k: [None] * case["nprops"] for k in klass}  # the very orbit object each propagator holds
    clones = []  # (orbit cloned at some point, the element set it held THEN)
    last = {k: [None] * case["nprops"] for k in klass}  # (result, dt_us, element set) of the latest request
    handed = []  # every result ever received (kept alive: identity comparisons stay meaningful)
    scribbled = set()
    worst = 0.0
    compared = 0
    labels = []

    def probe(kind, j, dt_us, step, spell):
        nonlocal worst, compared
        i = attached[kind][j]
        f = tles[i]
        mjd, us = target(f, dt_us)
        date_dt = to_datetime(mjd, us)
        err, rr, rv, sat = reference(f, mjd, us)
        what = f"history-{kind}"
        arg = _dt.timedelta(microseconds=dt_us) if spell == "timedelta" else Date(date_dt)
        prev = last[kind][j]
        repeat = prev is not None and prev[1] == dt_us and prev[2] == i
        if err != 0:
            try:
                props[kind][j].propagate(arg)
            except Exception:
                pass
            last[kind][j] = None
            return
        if kind == "native":
            if sat.method != "n" or sat.altp * sat.radiusearthkm < 220.001 or decayed_en_route(sat, dt_us):
                last[kind][j] = None
                return
            ptol, vtol = 1e-2, 1e-2 * float(np.linalg.norm(rv) / np.linalg.norm(rr))
        else:
            ptol, vtol, _ = comparable(sat, dt_us, rr, rv)
        sv = props[kind][j].propagate(arg)
        where = (f"after step {step} ({case['ops'][step]['op']}): propagator {kind}#{j}, attached to element set {i}, "
                 f"asked by {spell}" + (" for the same instant as just before" if repeat else ""))
        if any(sv is old for old in handed):
            raise Violation(f"{what}:same-object", f"{where}: propagate() returned an object it had already returned "
                            "(the caller may have changed it since)")
        if any(np.shares_memory(np.asarray(sv.base), np.asarray(old.base)) for old in handed):
            raise Violation(f"{what}:shared-buffer", f"{where}: the result shares its array with an earlier result")
        handed.append(sv)
        try:
            ratio = compare(sv, date_dt, rr, rv, ptol, vtol, what=what)
        except Violation as v:
            raise Violation(v.kind, f"{where}: {v.msg}", **v.data) from None
        worst = max(worst, ratio)
        compared += 1
        if repeat:
            labels.append("repeat-same-instant")
            if (kind, j) in scribbled:
                labels.append("repeat-after-scribble")
            if spell == "timedelta":
                labels.append("repeat-by-timedelta")
        last[kind][j] = (sv, dt_us, i)

    cur_dt, spell = case["ops"][0]["dt_us"], "date"
    for step, op in enumerate(case["ops"]):
        kind, j, i = op["kind"], op["prop"] % case["nprops"], op["tle"] % n
        name = op["op"]
        labels.append(f"op:{name}")
        if name not in ("scribble", "repeat"):
            cur_dt = op["dt_us"]
            scribbled.clear()
        spell = op.get("spell", "date")
        if name == "attach":
            props[kind][j].orbit = orbits[i]
            attached[kind][j] = i
            attached_obj[kind][j] = orbits[i]
        elif name == "new":
            props[kind][j] = klass[kind]()
            attached[kind][j] = None
            attached_obj[kind][j] = None
            last[kind][j] = None
        elif name == "bad_attach":
            # an orbit that cannot be attached (its ndot does not fit the TLE field / it is not in TLE form):
            # the attempt must be refused AS A WHOLE - afterwards the propagator is what it was before
            bad = orbits[i].copy()
            if kind == "wrapper":
                bad.ndot = 5.0
            else:
                bad = bad.copy(form="keplerian_mean")
            p = props[kind][j]
            try:
                p.orbit = bad
            except (ValueError, TypeError):
                pass
            else:
                raise Violation(f"history-{kind}:bad-attach-accepted", f"step {step}: an orbit that cannot be written as a "
                                "TLE / is not in TLE form was attached without complaint")
            held = p.orbit if kind == "wrapper" else getattr(p, "tle", None)
            if held is not attached_obj[kind][j]:
                raise Violation(f"history-{kind}:half-attached", f"step {step}: after a refused attach propagator "
                                f"{kind}#{j} holds {'the refused orbit' if held is bad else repr(held)[:40]}, not the orbit "
                                "it held before (its SGP4 coefficients are still the old ones)")
        elif name == "clone":
            import pickle

            if len(clones) < 3:
                c = orbits[i].copy() if op.get("val", 0) % 2 else pickle.loads(pickle.dumps(orbits[i]))
                clones.append((c, dict(tles[i])))
        elif name == "copy":
            # the orbit object is replaced by a copy (which carries a propagator of its own)
            orbits[i] = orbits[i].copy()
        elif name == "orbit_propagate":
            # the documented route: the orbit is given the propagator and propagates itself
            # (Sgp4Beta is not a Propagator subclass: wrapper only)
            p = props["wrapper"][j]
            orbits[i].propagator = p
            attached["wrapper"][j] = i
            attached_obj["wrapper"][j] = orbits[i]
            mjd, us = target(tles[i], op["dt_us"])
            try:
                got = orbits[i].propagate(Date(to_datetime(mjd, us)))
            except Exception:
                if reference(tles[i], mjd, us)[0] == 0:
                    raise
            else:
                handed.append(got)
                last["wrapper"][j] = (got, op["dt_us"], i)
        elif name == "edit":
            # one metadata field of the orbit is changed in place, then the orbit is handed again to the
            # propagators it is attached to: they must answer for the orbit as it is NOW
            _vary(tles[i], op.get("field", "bstar"), op.get("val", 0))
            _apply_meta(orbits[i], tles[i])
            labels.append(f"edit:{op.get('field', 'bstar')}")
            for k in klass:
                for jj in range(case["nprops"]):
                    if attached[k][jj] == i:
                        props[k][jj].orbit = orbits[i]
                        attached_obj[k][jj] = orbits[i]
        elif name == "scribble":
            # the caller works on the state it was given: in place
            for k in klass:
                for jj in range(case["nprops"]):
                    if last[k][jj] is None or (k, jj) != (kind, j) and op["tle"] != 2:
                        continue
                    sv = last[k][jj][0]
                    try:
                        if op["how"] == "zero":
                            sv[:] = 0.0
                        elif op["how"] == "dv":
                            sv[3:] = np.asarray(sv.base, float)[3:] + 100.0
                        elif op["how"] == "form":
                            sv.form = "keplerian"
                        else:
                            sv.frame = "EME2000"
                    except Exception:
                        sv[:] = 0.0  # the conversion is only a stimulus (C01 / C02 judge it)
                    scribbled.add((k, jj))
        # invariant: every attached propagator answers for ITS element set, with a new object
        for k in klass:
            for jj in range(case["nprops"]):
                if attached[k][jj] is not None:
                    probe(k, jj, cur_dt, step, spell)
        # ... and a clone taken BEFORE later edits still is the element set it was cloned from
        for c, f0 in clones:
            mjd, us = target(f0, cur_dt)
            err, rr, rv, sat = reference(f0, mjd, us)
            if err == 0:
                d = to_datetime(mjd, us)
                ptol, vtol, _ = comparable(sat, cur_dt, rr, rv)
                try:
                    worst = max(worst, compare(c.propagate(Date(d)), d, rr, rv, ptol, vtol, what="history-clone"))
                except Violation as v:
                    raise Violation(v.kind, f"after step {step} ({name}): a clone taken earlier no longer propagates as "
                                    f"the element set it was cloned from: {v.msg}", **v.data) from None
                labels.append("clone-probed")
    kinds_live = sum(1 for k in klass for jj in range(case["nprops"]) if attached[k][jj] is not None)
    if kinds_live >= 2:
        labels.append("two-or-more-attached")
    if tles[0]["cat"] == tles[1]["cat"]:
        labels.append("same-object")
    for field in case.get("variants") or ():
        labels.append(f"variant-of-one-set:{field}")
    return dict(nt=compared >= 3 and kinds_live >= 2, cls=sorted(set(labels)), ratio=worst)


# ------------------------------------------------------------------ spellings


SCALES = ["UTC", "UTC", "TT", "TDB", "GPS", "TAI", "UT1"]
SOURCES = ["text", "text", "lines", "from_orbit", "from_string", "tle-pickle"]
CLONES = ["none", "none", "copy", "copy.copy", "deepcopy", "pickle"]
ROUTES = ["date", "date", "timedelta", "iter-dates", "iter-range", "ephem", "native-date", "native-timedelta",
          "ephemeris", "iter-zip", "iter-interleaved", "iter-listeners", "date-keyword"]
BUILDS = ["Tle.orbit", "Tle.orbit", "Orbit-by-name", "Orbit-by-instance", "Orbit-by-class-name-lookup"]
HELD = ["tle", "tle", "keplerian_mean", "keplerian_mean_circular", "keplerian", "keplerian_eccentric",
        "keplerian_circular", "equinoctial"]
# UTC midnights that follow a leap second, as (year, day of year): targets are massed around them
LEAP_DAYS = [(1973, 1), (1974, 1), (1975, 1), (1976, 1), (1977, 1), (1978, 1), (1979, 1), (1980, 1), (1981, 182),
             (1982, 182), (1983, 182), (1985, 182), (1988, 1), (1990, 1), (1991, 1), (1992, 183), (1993, 182),
             (1994, 182), (1996, 1), (1997, 182), (1999, 1), (2006, 1), (2009, 1), (2012, 183), (2015, 182), (2017, 1)]
_NEAR = gt.uniform_int(-140 * 10**6, 140 * 10**6)


def _boundary_offsets(f):
    """Offsets (us from the epoch) of the UTC midnights, turns of the year and leap-second midnights
    that lie within 30 days of the epoch."""
    mjd, us = epoch_us(f)
    out = {"midnight": [], "new-year": [], "leap-second": []}
    leap = {tf.mjd_of_civil(y, 1, 1) + d - 1 for y, d in LEAP_DAYS}
    y0 = tf.year4(f["eyy"])
    newyear = {tf.mjd_of_civil(y, 1, 1) for y in (y0, y0 + 1)}
    for day in range(mjd - 29, mjd + 31):
        off = (day - mjd) * DAY_US - us
        if abs(off) > SPAN_US - 141 * 10**6:
            continue
        out["midnight"].append(off)
        if day in newyear:
            out["new-year"].append(off)
        if day in leap:
            out["leap-second"].append(off)
    return out


@st.composite
def spelling_case(draw):
    """One element set, one target; every way of saying it is drawn: the label of the target date and
    of the orbit's date, where the target lies (uniform / within 140 s of a UTC midnight, of the turn of
    the year, of a leap-second midnight), where the orbit comes from, the form and frame it is held
    in, how it was cloned, and the route by which the state is asked for."""
    f = draw(gt.sgp4_fields(draw(st.sampled_from(["native", "native", "near", "deep"]))))
    where = draw(st.sampled_from(["uniform", "uniform", "midnight", "new-year", "leap-second", "epoch"]))
    dt = draw(_DT)
    if where == "epoch":
        # EXACTLY the epoch of the attached orbit, or a few microseconds off it
        dt = draw(st.sampled_from([0, 0, 0, 1, -1, 2, -3, 864, -864]))
    elif where != "uniform":
        b = _boundary_offsets(f)[where] or _boundary_offsets(f)["midnight"]
        dt = b[draw(st.integers(0, 999)) % len(b)] + draw(_NEAR)
    return dict(tle=f, dt_us=dt, where=where, date_scale=draw(st.sampled_from(SCALES)),
                orbit_scale=draw(st.sampled_from(SCALES)), source=draw(st.sampled_from(SOURCES)),
                held=draw(st.sampled_from(HELD)), held_frame=draw(st.sampled_from(["TEME", "TEME", "EME2000"])),
                clone=draw(st.sampled_from(CLONES)), clone_when=draw(st.sampled_from(["fresh", "initialised"])),
                route=draw(st.sampled_from(ROUTES)), npts=draw(st.integers(1, 4)), build=draw(st.sampled_from(BUILDS)),
                step_us=draw(gt.uniform_int(1, 7200 * 10**6)) * draw(st.sampled_from([1, 1, -1])))


def _clone(obj, how):
    import copy
    import pickle

    if how == "copy":
        return obj.copy()
    if how == "copy.copy":
        return copy.copy(obj)
    if how == "deepcopy":
        return copy.deepcopy(obj)
    if how == "pickle":
        return pickle.loads(pickle.dumps(obj))
    return obj


def check_spellings(case):
    """Same element set, same instant, other spelling -> the reference state."""
    import pickle

    import numpy as np
    from beyond.dates import Date
    from beyond.io.tle import Tle
    from beyond.propagators.sgp4beta import Sgp4Beta

    f = case["tle"]
    text = tf.format_text(f)
    l1, l2 = tf.format_lines(f)
    cls = [f"where:{case['where']}", f"date:{case['date_scale']}", f"orbit-date:{case['orbit_scale']}",
           f"source:{case['source']}", f"held:{case['held']}/{case['held_frame']}",
           f"clone:{case['clone']}", f"route:{case['route']}"]
    # ---- where the orbit comes from
    src = case["source"]
    if src == "lines":
        tle = Tle(([f["name"]] if f.get("name") else []) + [l1, l2])
    elif src == "from_string":
        tle = list(Tle.from_string("# catalogue\n" + text + "\n"))[0]
    else:
        tle = Tle(text)
    if src == "tle-pickle":
        tle = pickle.loads(pickle.dumps(tle))
    orb = tle.orbit()
    build = case.get("build", "Tle.orbit")
    if build != "Tle.orbit":
        # the same orbit built by hand: the propagator given by name, as an instance, or looked up by name
        from beyond.orbits import Orbit
        from beyond.propagators import get_propagator
        from beyond.propagators.sgp4 import Sgp4

        spec = {"Orbit-by-name": "Sgp4", "Orbit-by-instance": Sgp4(),
                "Orbit-by-class-name-lookup": get_propagator("Sgp4")()}[build]
        meta = dict(bstar=tle.bstar, ndot=tle.ndot, ndotdot=tle.ndotdot, name=tle.name, cospar_id=tle.cospar_id,
                    norad_id=tle.norad_id, element_nb=tle.element_nb, revolutions=tle.revolutions)
        orb = Orbit(tle.to_list(), tle.epoch, "TLE", "TEME", spec, **meta)
        cls.append(f"build:{build}")
    if src == "from_orbit":
        orb = Tle.from_orbit(orb).orbit()  # the orbit of the re-written element set
    # ---- under which label its date is known
    epoch_dt = orb.date.datetime
    if case["orbit_scale"] != "UTC":
        orb.date = orb.date.change_scale(case["orbit_scale"])
        if abs((orb.date.change_scale("UTC").datetime - epoch_dt).total_seconds()) > 1e-6:
            return dict(nt=False, cls=cls + ["relabel-moves-the-instant(C03)"])
    # ---- in which form / frame it is held (only where the way back to the same text is well conditioned)
    e, inc = f["ecc"] / 1e7, f["inc"] / 1e4
    held, frame = case["held"], case["held_frame"]
    if held not in ("tle", "keplerian_mean") and e < 1e-3:
        held = "tle"
    if held == "equinoctial" and not (0.5 <= inc <= 179.5):
        held = "tle"
    if frame != "TEME" and (e < 1e-3 or not (0.5 <= inc <= 179.5)):
        frame = "TEME"
    if (held, frame) != ("tle", "TEME"):
        orb = orb.copy(form=held, frame=frame)
        back = Tle.from_orbit(orb).text
        if back != f"{l1}\n{l2}":
            # e >= 1e-3 and 0.5 <= i <= 179.5 deg here: the conversions are conditioned to ~1e-13, the printed
            # grids are 1e-4 deg / 1e-7 / 1e-8 and the elements sit ON the grid: no digit can flip
            d = [k for k in range(len(back)) if k >= len(text) or back[k] != (l1 + "\n" + l2)[k]]
            raise Violation("spelling:held-text", f"the orbit held as {held}/{frame} is written back as another element "
                            f"set (first difference at character {d[0] if d else '?'}): {back.splitlines()}")
    # ---- the target, under its label
    mjd, us = target(f, case["dt_us"])
    date_dt = to_datetime(mjd, us)
    date = Date(date_dt)
    if case["date_scale"] != "UTC":
        date = date.change_scale(case["date_scale"])
        if abs((date.change_scale("UTC").datetime - date_dt).total_seconds()) > 1e-6:
            return dict(nt=False, cls=cls + ["relabel-moves-the-instant(C03)"])
    route = case["route"]
    native = route.startswith("native")
    # ---- clones
    if case["clone_when"] == "initialised" and not native:
        try:
            orb.propagate(date + _dt.timedelta(hours=5))
        except Exception:
            pass
        cls.append("clone-of-initialised")
    orb = _clone(orb, case["clone"])

    def expect(utc_dt):
        d = utc_dt - to_datetime(*epoch_us(f))
        dt_us = (d.days * 86400 + d.seconds) * 10**6 + d.microseconds
        m, u = target(f, dt_us)
        err, rr, rv, sat = reference(f, m, u)
        return dt_us, err, rr, rv, sat

    worst = 0.0
    compared = 0

    def judge(sv, want_dt=None):
        nonlocal worst, compared
        utc_dt = sv.date.change_scale("UTC").datetime
        if want_dt is not None and utc_dt != want_dt:
            # "epoch + timedelta" is an addition on the clock of the orbit's own scale: under a TDB label it
            # differs from the UTC sum by the periodic term (ms), under TT/TAI/GPS by the leap seconds crossed.
            # The state is then judged at the date the result carries.
            slack = 2.0 if (route.endswith("timedelta") and case["orbit_scale"] != "UTC") else 0.0
            if route in ("iter-dates", "iter-range", "ephem"):
                slack = 1.5e-6  # dates that went through Date arithmetic: one tick of the microsecond grid
            if abs((utc_dt - want_dt).total_seconds()) > slack:
                raise Violation("spelling:date", f"result dated {sv.date} (UTC {utc_dt}), asked {want_dt} UTC [{cls}]")
            cls.append("timedelta-on-own-clock")
        dt_us, err, rr, rv, sat = expect(utc_dt)
        if err != 0:
            return
        if native:
            if sat.method != "n" or sat.altp * sat.radiusearthkm < 220.001 or decayed_en_route(sat, dt_us):
                return
            ptol, vtol = 1e-2, 1e-2 * float(np.linalg.norm(rv) / np.linalg.norm(rr))
        else:
            ptol, vtol, _ = comparable(sat, dt_us, rr, rv)
        got = np.asarray(sv.base, float)
        if sv.frame.name != "TEME" or sv.form.name != "cartesian" or not np.all(np.isfinite(got)):
            raise Violation("spelling:frame", f"result is {sv.form.name} in {sv.frame.name}: {got.tolist()}")
        dr, dv = float(np.linalg.norm(got[:3] - rr)), float(np.linalg.norm(got[3:] - rv))
        worst = max(worst, dr / ptol, dv / vtol)
        compared += 1
        if dr > ptol or dv > vtol:
            raise Violation("spelling:state", f"|dr| = {dr:.6g} m (tol {ptol:.3g}), |dv| = {dv:.6g} m/s (tol {vtol:.3g}) "
                            f"at {utc_dt} UTC [{', '.join(cls)}]", dr=dr, dv=dv)

    ref_err = expect(date_dt)[1]
    try:
        if route == "date":
            judge(orb.propagate(date), date_dt)
        elif route == "timedelta":
            judge(orb.propagate(_dt.timedelta(microseconds=case["dt_us"])), date_dt)
        elif native:
            if orb.form.name != "tle":
                orb = orb.copy(form="tle")
            if orb.frame.name != "TEME":
                orb = orb.copy(frame="TEME")
            prop = _clone(Sgp4Beta(), case["clone"] if case["clone"] != "copy" else "none")
            prop.orbit = orb
            if case["clone_when"] == "initialised":
                prop = _clone(prop, case["clone"] if case["clone"] != "copy" else "deepcopy")
            arg = date if route == "native-date" else _dt.timedelta(microseconds=case["dt_us"])
            judge(prop.propagate(arg), date_dt)
        elif route == "date-keyword":
            judge(orb.propagate(date=date), date_dt)
        elif route in ("iter-zip", "iter-interleaved"):
            # two iterations alive together: over one orbit (two ranges), or over two orbits built alike
            n = max(2, case["npts"])
            step = _dt.timedelta(microseconds=abs(case["step_us"]))
            other = orb if route == "iter-zip" else Tle(text).orbit()
            shift = _dt.timedelta(microseconds=abs(case["step_us"]) // 3 + 1)
            it1 = orb.iter(start=date, stop=step * (n - 1), step=step)
            it2 = other.iter(start=date + shift, stop=step * (n - 1), step=step)
            firsts, seconds = [], []
            for a, b in zip(it1, it2):
                firsts.append(a)
                seconds.append(b)
            if len(firsts) != n:
                raise Violation("spelling:count", f"{route}: {len(firsts)} pairs for {n} dates [{cls}]")
            for k, (a, b) in enumerate(zip(firsts, seconds)):
                for sv, t0 in ((a, date_dt), (b, date_dt + shift)):
                    want = t0 + k * step
                    # (under a non-UTC label the range runs on that scale's own clock: leap seconds, TDB term)
                    if case["date_scale"] == "UTC" and abs(
                            (sv.date.change_scale("UTC").datetime - want).total_seconds()) > 1.5e-6:
                        raise Violation("spelling:date", f"{route}: point {k} dated {sv.date}, its range says {want} UTC "
                                        f"[{cls}]")
                    judge(sv)
        elif route == "iter-listeners":
            # listeners switch iter() to its event-detecting branch: every state it yields, events included,
            # is an SGP4 state at the date it carries
            from beyond.propagators.listeners import ApsideListener, NodeListener

            n = max(2, case["npts"])
            step = _dt.timedelta(microseconds=min(abs(case["step_us"]), 1200 * 10**6))
            got = list(orb.iter(start=date, stop=step * (n - 1), step=step, listeners=[NodeListener(), ApsideListener()]))
            if len(got) < n:
                raise Violation("spelling:count", f"{route}: {len(got)} states for {n} dates [{cls}]")
            for sv in got:
                judge(sv)
            if any(getattr(sv, "event", None) for sv in got):
                cls.append("iter-with-events")
        else:
            n = case["npts"]
            # (a single-point range with a negative step is refused by Date.range: C08's subject)
            step = _dt.timedelta(microseconds=abs(case["step_us"]) if n == 1 else case["step_us"])
            if route == "ephemeris":
                got = list(orb.ephemeris(start=date, stop=step * (n - 1) if n > 1 else _dt.timedelta(0), step=step))
            elif route == "iter-dates":
                dates = [date + k * step for k in range(n)]
                got = list(orb.iter(dates=dates))
            elif route == "iter-range":
                got = list(orb.iter(start=date, stop=step * (n - 1) if n > 1 else _dt.timedelta(0), step=step))
            else:
                got = list(orb.ephem(start=date, stop=step * (n - 1) if n > 1 else _dt.timedelta(0), step=step))
            if len(got) != n:
                raise Violation("spelling:count", f"{route}: {len(got)} states for {n} dates [{cls}]")
            for sv in got:
                judge(sv)
            # (an Ephem is sorted by date: with a negative step the start is its last point)
            if not any(abs((sv.date.change_scale("UTC").datetime - date_dt).total_seconds()) <= 1.5e-6 for sv in got):
                raise Violation("spelling:date", f"{route}: no state at the start date {date_dt} UTC: "
                                f"{[str(sv.date) for sv in got]} [{cls}]")
    except Violation:
        raise
    except Exception:
        if ref_err == 0 and not (route.startswith("iter") or route in ("ephem", "ephemeris")):
            raise
        if ref_err == 0:
            # a later point of the range may be one the reference refuses too
            step_err = [expect(date_dt + k * _dt.timedelta(microseconds=case["step_us"]))[1] for k in range(case["npts"])]
            if not any(step_err) and route not in ("iter-zip", "iter-interleaved", "iter-listeners"):
                raise
        cls.append("reference-error-on-route")
    return dict(nt=compared > 0, cls=cls, ratio=worst)


# ------------------------------------------------------------------ ties (enumerated)


def ties_runner(shard, nshards, tier, stats):
    """Element sets and dates EXACTLY on the switches of the model, drawn on purpose (a random draw never
    lands on them): e = 1e-4 (and one printed unit either side), n = 6.4 rev/day (period 225 min) and one
    unit above, e = 0, i = 0 / 180 deg, B* = 0; low orbits with strong drag so that the branch taken
    matters; dates exactly at the epoch, one microsecond off, and days away."""
    base = dict(name=None, cat=7, desig=None, eyy=0, eday=100000000 + 50000000, ndot=0, nddot=dict(s=1, m=0, x=0),
                elnum=1, rev=1, raan=123456, argp=300000, ma=2000000)
    k = 0
    for ecc in (0, 999, 1000, 1001):
        for n in (1600000000, 1550000000, 640000001, 640000000):
            for inc in (516000, 0, 1800000):
                for bstar in (dict(s=1, m=10000, x=-2), dict(s=1, m=50000, x=-4), dict(s=1, m=0, x=0)):
                    for dt in (0, 1, -1, DAY_US, -3 * DAY_US, 10 * DAY_US):
                        k += 1
                        if k % nshards != shard:
                            continue
                        f = dict(base, ecc=ecc, n=n, inc=inc, bstar=bstar)
                        yield dict(tle=f, dt_us=dt, mode="direct", kind="native" if n > 640000001 else "wrapper")
    stats.exhaustive = True


def check_tie(case):
    res = check_native(case) if case["kind"] == "native" else check_wrapper(case)
    f = case["tle"]
    res["cls"] = list(res.get("cls", [])) + [f"tie:e={f['ecc']}e-7", f"tie:n={f['n'] / 1e8:.8f}", f"tie:dt={case['dt_us']}us"]
    return res


FACETS = [
    Facet("wrapper_near_earth", case_strategy("near", ("direct", "direct", "timedelta")), check_wrapper, setup=_eop,
          rule="|offset| > 1 min, reference error code 0", quick=(6, 500), thorough=(16, 8000)),
    Facet("wrapper_deep_space", case_strategy("deep", ("direct", "direct", "timedelta")), check_wrapper, setup=_eop,
          rule="|offset| > 1 min, reference error code 0", quick=(6, 450), thorough=(16, 7000)),
    Facet("native", case_strategy("native", ("direct", "direct", "timedelta")), check_native, setup=_eop,
          rule="|offset| > 1 min, reference in its full near-Earth model (method n, perigee >= 220 km)",
          quick=(6, 500), thorough=(16, 8000)),
    Facet("wrapper_via_orbit_copy", case_strategy("any", ("copy", "form", "rebind", "twice"), pair=True),
          check_wrapper, setup=_eop,
          rule="|offset| > 1 min; the orbit is copied, converted, or shares its propagator before propagating",
          quick=(6, 300), thorough=(16, 4000)),
    Facet("ties", check=check_tie, runner=ties_runner, setup=_eop,
          rule="reference error code 0: element sets exactly on the model's switches (e = 1e-4 +- 1 unit, 225 min, "
               "e = 0, i = 0 / 180 deg, B* = 0) at dates exactly at / 1 us off / days from the epoch - enumerated",
          quick=(2, 0), thorough=(2, 0)),
    Facet("spellings", lambda shard, tier: spelling_case(), check_spellings, setup=_eop,
          rule="at least one state compared; same element set and instant said another way: label of the target "
               "date and of the orbit's date (6 scales), target within 140 s of a UTC midnight / turn of the year / "
               "leap-second midnight, orbit from text / lines / from_orbit / from_string / pickled Tle, held in 7 "
               "forms and 2 frames, cloned 5 ways (fresh or initialised), asked by Date / timedelta / iter / ephem, "
               "Sgp4 and Sgp4Beta",
          quick=(8, 200), thorough=(16, 5000)),
    Facet("history", lambda shard, tier: history_case(), check_history, setup=_eop,
          rule=">= 3 states compared and >= 2 propagator objects attached at the end; after every operation "
               "each attached propagator (Sgp4 and Sgp4Beta, 2-3 objects each, 2-3 element sets) must return the "
               "reference state of the element set currently attached to it",
          quick=(8, 100), thorough=(16, 1500)),
]
