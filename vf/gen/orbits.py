"""Hypothesis strategies for orbits.  A case is a plain dict; cartesian states are built by
the oracle's kep2cart so the library's own conversions are never on the generating path."""

import math

from hypothesis import strategies as st

from ..oracles import twobody as tb

MU = {
    "Earth": 3.986004418e14,
    "Moon": 4.9027779e12,
    "Sun": 1.32712440018e20,
    "Mars": 4.28283100e13,
}
RADIUS = {"Earth": 6378136.3, "Moon": 1737400.0, "Sun": 6.957e8, "Mars": 3396200.0}

TWO_PI = 2 * math.pi


def f(lo, hi):
    return st.floats(lo, hi, allow_nan=False, allow_infinity=False)


@st.composite
def ecc(draw, elliptic=True, hyperbolic=True, emax_ell=0.99, emax_hyp=20.0, emin_hyp=1.001):
    branches = []
    if elliptic:
        branches += ["tiny", "ell", "ell"]
    if hyperbolic:
        branches += ["h1", "h2", "h3"]
    b = draw(st.sampled_from(branches))
    if b == "tiny":
        return 10 ** draw(f(-4, -1))
    if b == "ell":
        return draw(f(0.1, emax_ell))
    if b == "h1":
        return draw(f(emin_hyp, min(1.6, emax_hyp)))
    if b == "h2":
        return draw(f(1.6, min(3.6, emax_hyp)))
    return draw(f(3.6, emax_hyp))


@st.composite
def elements(draw, elliptic=True, hyperbolic=True, bodies=("Earth",), emax_ell=0.99,
             emax_hyp=20.0, rp_range=(1.03, 50.0), hmax=8.0, mwind=2.0, emin_hyp=1.001):
    """dict(body, mu, a, e, i, raan, argp, anom, nu) ; anom = M (elliptic, unbounded) or H."""
    body = draw(st.sampled_from(bodies))
    e = draw(ecc(elliptic, hyperbolic, emax_ell, emax_hyp, emin_hyp))
    rp = RADIUS[body] * draw(f(*rp_range))
    a = rp / (1 - e)
    retro = draw(st.integers(0, 9)) < 3
    i = draw(f(math.pi / 2, math.pi - 0.01)) if retro else draw(f(0.01, math.pi - 0.01))
    raan = draw(f(0, TWO_PI - 1e-9))
    argp = draw(f(0, TWO_PI - 1e-9))
    if e < 1:
        anom = draw(f(-mwind * TWO_PI, mwind * TWO_PI))
        nu = tb.E2nu(tb.solve_kepler_E(anom, e), e)
    else:
        anom = draw(f(-hmax, hmax))
        nu = tb.H2nu(anom, e)
    return dict(body=body, a=a, e=e, i=i, raan=raan, argp=argp, anom=anom, nu=nu)


def cart_of(el):
    return tb.kep2cart(el["a"], el["e"], el["i"], el["raan"], el["argp"], el["nu"], MU[el["body"]])


def MU_LIB(body="Earth"):
    """mu as the library defines it (mass * G)."""
    from beyond import constants

    return getattr(constants, body).mu


# Hypothesis draws wide integer ranges (and, less so, floats) heavily biased towards small
# magnitudes: st.integers(0, 10**9) puts ~93 % of its mass below 10**8.  Ranges <= 1000 are uniform.
@st.composite
def unit(draw):
    """[0, 1): 3/4 of the draws truly uniform (a PRNG seeded by a Hypothesis-drawn integer, so the value
    is still a pure function of the Hypothesis choice sequence and replays), 1/4 Hypothesis' own float
    distribution (mass on 0, 0.5, tiny values - the edge cases, and what the shrinker can simplify)."""
    import random

    if draw(st.integers(0, 3)) == 0:
        return draw(st.floats(0, 1, exclude_max=True, allow_nan=False))
    return random.Random(draw(st.integers(0, 2**32 - 1))).random()


def uniform(lo, hi):
    return unit().map(lambda u: lo + (hi - lo) * u)


def uniform_int(lo, hi):
    """Uniform integer in [lo, hi] (any width)."""
    return unit().map(lambda u: lo + int(u * (hi - lo + 1)))
