"""Hypothesis strategies and builders for the objects a CCSDS message can carry (C13).

A *spec* is a plain JSON-able dict drawn by Hypothesis; ``build_*`` turns it into the library
object (StateVector / Orbit / Ephem / list of Ephem / MeasureSet).  Cartesian states come from
the oracle's kep2cart (vf/oracles/twobody.py), never from the library.  ``beyond`` is imported
only inside the builders (after env.bootstrap()).
"""

import math
from datetime import datetime, timedelta as _td

from hypothesis import strategies as st

from . import orbits as go

SCALES = ["UTC", "TAI", "TT", "GPS", "TDB", "UT1"]
FRAMES = ["EME2000", "GCRF", "MOD", "TOD", "TEME", "CIRF", "TIRF", "ITRF", "PEF", "G50"]
# frames created by beyond.env.jpl.create_frames() from the repository's DE403 file -> body used to size the orbit
JPL_FRAMES = {"Mars": "Mars", "Moon": "Moon", "Sun": "Sun", "MarsBarycenter": "Mars",
              "EarthBarycenter": "Earth", "SolarSystemBarycenter": "Sun", "Venus": "Mars"}
LOCAL = ["QSW", "TNW"]
FORMS_ELL = ["cartesian", "cartesian", "cartesian", "keplerian", "spherical", "keplerian_mean",
             "equinoctial", "cylindrical", "keplerian_circular"]
FORMS_HYP = ["cartesian", "cartesian", "keplerian", "spherical"]

T0 = datetime(2000, 1, 1)
MJD_T0 = datetime(1858, 11, 17)

# ------------------------------------------------------------------ wide integers


@st.composite
def _uniform_int(draw, lo, hi):
    """Exactly uniform on [lo, hi] whatever the width: base-1000 digits (Hypothesis draws integer ranges
    <= 1000 uniformly, wide ranges heavily biased to small magnitudes), rejection-free modulo (bias < 1e-3/N)."""
    n = hi - lo + 1
    digits, span = 1, 1000
    while span < n * 1000:
        digits += 1
        span *= 1000
    v = 0
    for _ in range(digits):
        v = v * 1000 + draw(st.integers(0, 999))
    return lo + v % n


def wint(lo, hi):
    """7/8 uniform over the whole range, 1/8 Hypothesis' own draw (edge values, small magnitudes)."""
    if hi - lo <= 1000:
        return st.integers(lo, hi)
    return st.sampled_from(range(8)).flatmap(lambda k: st.integers(lo, hi) if k == 0 else _uniform_int(lo, hi))


# ------------------------------------------------------------------ text

# KVN-safe alphabet: no '=', '[', ']', no control characters; XML-special and non-ASCII included on purpose
_INNER = ("ABCDEFGHIJKLMNOPQRSTUVWXYZabcdefghijklmnopqrstuvwxyz0123456789"
          "_-+./:()#*%&'\",;<>!?@ éüñΩ日")
_EDGE = _INNER.replace(" ", "")
_KEY = "ABCDEFGHIJKLMNOPQRSTUVWXYZabcdefghijklmnopqrstuvwxyz0123456789_"
PHRASES = ["Maneuver 1", "apogee burn", "inclination correction", "station keeping #2",
           "see COMMENT of burn 1"]


@st.composite
def text(draw, max_size=12):
    """non-empty, no leading/trailing blank"""
    first = draw(st.sampled_from(_EDGE))
    n = draw(st.integers(0, max_size - 1))
    if n == 0:
        return first
    mid = draw(st.text(alphabet=_INNER, min_size=n - 1, max_size=n - 1))
    return first + mid + draw(st.sampled_from(_EDGE))


def key():
    return st.text(alphabet=_KEY, min_size=1, max_size=10)


def opt(strategy, p_none=3):
    """None with probability 1/p_none"""
    return st.sampled_from(range(p_none)).flatmap(lambda k: st.none() if k == 0 else strategy)


@st.composite
def user_fields(draw):
    """0..3 user-defined fields as a list of [key, value] (distinct keys); exactly one is the common case"""
    n = draw(st.sampled_from([0, 0, 0, 1, 1, 2, 3]))
    keys = draw(st.lists(key(), min_size=n, max_size=n, unique=True))
    if n >= 2 and draw(st.sampled_from(range(3))) == 0:
        # two keys that differ minimally: a trailing underscore, the case of the letters, one being a prefix of the other
        near = draw(st.sampled_from([keys[0] + "_", keys[0].swapcase(), keys[0] + "0", keys[0][:-1] or "Z"]))
        if near not in keys:
            keys[1] = near
    return [[k, draw(text(16))] for k in keys]


cospar = st.one_of(
    st.builds(lambda y, n, p: f"{y}-{n:03d}{p}", st.integers(1958, 2040), st.integers(1, 999),
              st.sampled_from(["A", "B", "AB", "ZZZ"])),
    text(10),
)

# ------------------------------------------------------------------ dates


LEAP_DAYS = ["1992-07-01", "1993-07-01", "1994-07-01", "1996-01-01", "1997-07-01", "1999-01-01", "2006-01-01",
             "2009-01-01", "2012-07-01", "2015-07-01", "2017-01-01"]  # UTC midnights that follow a leap second
REAL_EOP = False  # set by the facet's setup: dates are then kept inside the IERS tables of the repository


@st.composite
def date_spec(draw, scale=None, lo_year=1985, hi_year=2045, sub=True):
    """us = integer microseconds since 2000-01-01 on the scale's own clock; frac = sub-microsecond part;
    kind = class of the instant (uniform / round second / day boundary / turn of the year / day 366 /
    leap-second midnight - the last one only with the real Earth-orientation tables)"""
    if REAL_EOP:
        lo_year, hi_year = max(lo_year, 1992), min(hi_year, 2017)
    lo = int((datetime(lo_year, 1, 1) - T0).total_seconds()) * 10**6
    hi = int((datetime(hi_year, 1, 1) - T0).total_seconds()) * 10**6
    kinds = ["uniform"] * 5 + ["second", "midnight", "new-year", "day366", "exact-midnight", "exact-new-year"] + (
        ["leap", "leap"] if REAL_EOP else ["uniform"])
    kind = draw(st.sampled_from(kinds))
    if kind == "second":
        us = draw(wint(lo // 10**6, hi // 10**6)) * 10**6
    elif kind == "midnight":  # within a second of a day boundary
        us = draw(wint(lo // (86400 * 10**6), hi // (86400 * 10**6))) * 86400 * 10**6 + draw(
            wint(-10**6, 10**6))
    elif kind == "exact-midnight":  # 00:00:00.000000 on the dot
        us = draw(wint(lo // (86400 * 10**6), hi // (86400 * 10**6))) * 86400 * 10**6
    elif kind == "exact-new-year":
        us = int((datetime(draw(st.integers(lo_year + 1, hi_year - 1)), 1, 1) - T0).total_seconds()) * 10**6
    elif kind == "new-year":  # within a few seconds of Jan 1st 0h
        year = draw(st.integers(lo_year + 1, hi_year - 1))
        us = int((datetime(year, 1, 1) - T0).total_seconds()) * 10**6 + draw(wint(-5 * 10**6, 5 * 10**6))
    elif kind == "day366":  # Dec 31st of a leap year
        year = draw(st.sampled_from([y for y in range(lo_year, hi_year) if y % 4 == 0 and (y % 100 or y % 400 == 0)]))
        us = int((datetime(year, 12, 31) - T0).total_seconds()) * 10**6 + draw(wint(0, 86400 * 10**6 - 1))
    elif kind == "leap":
        day = datetime.strptime(draw(st.sampled_from(LEAP_DAYS)), "%Y-%m-%d")
        us = int((day - T0).total_seconds()) * 10**6 + draw(wint(-3 * 10**6, 3 * 10**6))
    else:
        us = draw(wint(lo, hi))
    frac = 0.0
    if sub and not kind.startswith("exact") and draw(st.sampled_from(range(8))) == 0:
        frac = draw(go.uniform(0.0, 0.999))
    return dict(us=us, frac=frac, scale=scale or draw(st.sampled_from(SCALES)), kind=kind)


def label_mix(draw, epoch, n):
    """time-scale labels of the n further dates of a message (None = the label of the epoch): one message in
    four carries dates with other labels (same instants; the writers convert to the declared TIME_SYSTEM).
    Not next to a leap second: the library documents that it does not handle them."""
    near_leap = any(abs(epoch["us"] - int((datetime.strptime(day, "%Y-%m-%d") - T0).total_seconds()) * 10**6)
                    < 2 * 86400 * 10**6 for day in LEAP_DAYS)
    if near_leap or n == 0 or draw(st.sampled_from(range(4))) != 0:
        return [None] * n
    return [draw(st.sampled_from([None] + SCALES)) for _ in range(n)]


def relabel(date, label):
    """the same instant carrying another time-scale label"""
    if label is None or label == date.scale.name:
        return date
    return date.change_scale(label)


def build_date(spec, offset_us=0):
    from beyond.dates import Date

    dt = T0 + _td(microseconds=spec["us"] + offset_us)
    delta = dt - MJD_T0
    s = delta.seconds + (delta.microseconds + spec.get("frac", 0.0)) * 1e-6
    return Date(delta.days, s, scale=spec["scale"])


# ------------------------------------------------------------------ covariance


@st.composite
def cov_spec(draw, state_frame, frames=FRAMES):
    """PSD 6x6 = L L^T (L lower triangular, positive diagonal), position block ~ m^2, velocity ~ (m/s)^2.

    frame: None (= state frame) | built-in name | QSW | TNW ;
    how: 'ctor' = Cov(orb, values, frame) as the readers do, 'setter' = built in the state frame, then
    ``orb.cov.frame = frame`` (documented way to untangle the two frames)."""
    L = []
    for i in range(6):
        row = []
        for j in range(i + 1):
            mag = 10.0 if i < 3 else 1e-2
            if i == j:
                row.append(draw(go.uniform(0.05, 1.0)) * mag)
            else:
                row.append(draw(go.uniform(-0.5, 0.5)) * mag if draw(st.booleans()) else 0.0)
        L.append(row)
    sel = draw(st.sampled_from(["same", "same", "same", "QSW", "QSW", "TNW", "TNW", "other", "other", "other"]))
    if sel == "same":
        frame = None
    elif sel == "other":
        frame = draw(st.sampled_from([f for f in frames if f != state_frame] or [None]))
    else:
        frame = sel
    how = "ctor" if frame is None else draw(st.sampled_from(["ctor", "setter"]))
    return dict(L=L, frame=frame, how=how)


def cov_values(spec):
    import numpy as np

    L = np.zeros((6, 6))
    for i, row in enumerate(spec["L"]):
        L[i, : len(row)] = row
    return L @ L.T


def attach_cov(orb, spec):
    from beyond.orbits.cov import Cov

    vals = cov_values(spec)
    if spec["frame"] is None:
        orb.cov = Cov(orb, vals, orb.frame)
    elif spec["how"] == "ctor":
        orb.cov = Cov(orb, vals, spec["frame"])
    else:
        orb.cov = Cov(orb, vals, orb.frame)
        orb.cov.frame = spec["frame"]


# ------------------------------------------------------------------ state vectors (OPM)


@st.composite
def state_spec(draw, frames=FRAMES, jpl=False, forms=True):
    hyp = draw(st.sampled_from(range(12))) == 0
    if jpl:
        frame = draw(st.sampled_from(sorted(JPL_FRAMES)))
        body = JPL_FRAMES[frame]
    else:
        frame = draw(st.sampled_from(frames))
        body = "Earth"
    el = draw(go.elements(elliptic=not hyp, hyperbolic=hyp, bodies=(body,), emax_ell=0.9,
                          emax_hyp=4.0, rp_range=(1.03, 30.0), hmax=2.5, mwind=0.5))
    form = draw(st.sampled_from(FORMS_HYP if hyp else FORMS_ELL)) if forms else "cartesian"
    return dict(el=el, frame=frame, form=form)


def build_state(spec, date, klass="StateVector", propagator=None, **kw):
    from beyond.orbits import Orbit, StateVector

    cart = go.cart_of(spec["el"])
    if klass == "Orbit":
        sv = Orbit(cart, date, "cartesian", spec["frame"], propagator, **kw)
    else:
        sv = StateVector(cart, date, "cartesian", spec["frame"], **kw)
    if spec.get("form", "cartesian") != "cartesian":
        sv.form = spec["form"]
    return sv


DAY_MS = 86400 * 1000


@st.composite
def duration_ms(draw):
    """(milliseconds, extra microseconds) of a burn: log-uniform from 1 ms to 30 days (low-thrust arcs last days),
    plus the boundaries of the days field of a timedelta: exactly N days, N days + a fraction, one tick below a day"""
    kind = draw(st.sampled_from(["log", "log", "log", "days", "days+", "below-day", "short"]))
    if kind == "log":
        return int(round(math.exp(draw(go.uniform(0.0, math.log(30 * DAY_MS)))))) or 1, 0
    if kind == "days":
        return draw(st.integers(1, 30)) * DAY_MS, 0
    if kind == "days+":
        return draw(st.integers(1, 30)) * DAY_MS + draw(wint(1, DAY_MS - 1)), 0
    if kind == "below-day":
        return DAY_MS - 1, draw(st.sampled_from([0, 999]))  # 86399.999 s / 86399.999999 s
    return draw(wint(1, 3600 * 1000)), 0


@st.composite
def man_spec(draw):
    """offset of the (start) date from the state epoch in microseconds, dv on the 1 mm/s grid"""
    kind = draw(st.sampled_from(["impulsive", "continuous"]))
    m = dict(
        kind=kind,
        dt_us=draw(st.sampled_from(range(4)).flatmap(
            lambda k: wint(-3600 * 10**6, 86400 * 10**6) if k else wint(-2 * 86400 * 10**6, 40 * 86400 * 10**6))),
        dv_mm=[draw(wint(-300000, 300000)) for _ in range(3)],
        frame=draw(st.sampled_from([None, "QSW", "TNW"])),
        comment=draw(opt(st.one_of(text(20), st.sampled_from(PHRASES)), 2)),
    )
    if kind == "continuous":
        m["dur_ms"], m["dur_us"] = draw(duration_ms())
        m["date_pos"] = draw(st.sampled_from(["start", "start", "median", "stop"]))
        m["by"] = draw(st.sampled_from(["dv", "dv", "accel"]))
    return m


def build_man(m, epoch_spec):
    from beyond.dates import timedelta
    from beyond.orbits.man import ContinuousMan, ImpulsiveMan

    date = relabel(build_date(dict(epoch_spec, frac=0.0), m["dt_us"]), m.get("label"))
    dv = [x * 1e-3 for x in m["dv_mm"]]
    if m["kind"] == "impulsive":
        return ImpulsiveMan(date, dv, frame=m["frame"], comment=m["comment"])
    dur = timedelta(milliseconds=m["dur_ms"], microseconds=m.get("dur_us", 0))
    if m["date_pos"] == "median":
        date = date + dur / 2
    elif m["date_pos"] == "stop":
        date = date + dur
    if m["by"] == "accel":
        return ContinuousMan(date, dur, accel=[x / dur.total_seconds() for x in dv], frame=m["frame"],
                             comment=m["comment"], date_pos=m["date_pos"])
    return ContinuousMan(date, dur, dv=dv, frame=m["frame"], comment=m["comment"], date_pos=m["date_pos"])


@st.composite
def opm_spec(draw, jpl=False):
    state = draw(state_spec(jpl=jpl))
    epoch = draw(date_spec(lo_year=2001, hi_year=2019) if jpl else date_spec())
    spec = dict(
        type="opm",
        state=state,
        epoch=epoch,
        klass=draw(st.sampled_from(["StateVector", "StateVector", "Orbit"])),
        name=draw(opt(text(14))),
        cospar_id=draw(opt(cospar)),
        cov=draw(opt(cov_spec(state["frame"], FRAMES), 2)),
        mans=[draw(man_spec()) for _ in range(draw(st.sampled_from([0, 0, 0, 1, 1, 2, 3])))],
        user=draw(user_fields()),
        kep=draw(st.booleans()),
    )
    for m, lab in zip(spec["mans"], label_mix(draw, epoch, len(spec["mans"]))):
        m["label"] = lab
    # ties: a burn dated exactly at the epoch of the state, two burns with exactly the same date
    if spec["mans"] and draw(st.sampled_from(range(4))) == 0:
        spec["mans"][0]["dt_us"] = 0
    if len(spec["mans"]) >= 2 and draw(st.sampled_from(range(4))) == 0:
        spec["mans"][1]["dt_us"] = spec["mans"][0]["dt_us"]
        spec["mans"][1]["label"] = spec["mans"][0].get("label")
    if spec["klass"] == "Orbit":
        spec["propagator"] = draw(st.sampled_from([None, "Kepler", "Sgp4"]))
    return spec


def build_opm(spec):
    date = build_date(spec["epoch"])
    kw = {}
    if spec["name"] is not None:
        kw["name"] = spec["name"]
    if spec["cospar_id"] is not None:
        kw["cospar_id"] = spec["cospar_id"]
    prop = spec.get("propagator")
    if prop == "Kepler":
        from beyond.propagators.kepler import Kepler

        prop = Kepler()
    sv = build_state(spec["state"], date, spec["klass"], prop, **kw)
    if spec["cov"]:
        attach_cov(sv, spec["cov"])
    if spec["mans"]:
        sv.maneuvers = [build_man(m, spec["epoch"]) for m in spec["mans"]]
    if spec["user"]:
        sv._data["ccsds_user_defined"] = {k: v for k, v in spec["user"]}
    return sv


# ------------------------------------------------------------------ ephemerides (OEM)


@st.composite
def ephem_spec(draw, jpl=False):
    frame = draw(st.sampled_from(sorted(JPL_FRAMES) if jpl else FRAMES))
    npts = draw(st.sampled_from([1, 1, 2, 3, 4, 5, 8, 12]))
    hyp = False
    el = draw(go.elements(elliptic=True, hyperbolic=hyp, emax_ell=0.8, rp_range=(1.03, 10.0), mwind=0.5,
                          bodies=(JPL_FRAMES[frame] if jpl else "Earth",)))
    # us, >= 1 ms apart; one ephemeris in five spans days
    span = 3 * 86400 * 1000 if draw(st.sampled_from(range(5))) == 0 else 600 * 1000
    steps = [0] + [draw(wint(1, span)) * 1000 for _ in range(npts - 1)]
    if npts > 1 and draw(st.sampled_from(range(6))) == 0:
        steps[1] = 1  # two points one microsecond apart (the resolution of the written dates)
    nus = [draw(go.uniform(0, 2 * math.pi - 1e-9)) for _ in range(npts)]
    # 0..N covariances: none / exactly one / some / all
    mode = draw(st.sampled_from(["none", "none", "one", "some", "all"]))
    if mode == "none":
        with_cov = []
    elif mode == "one":
        with_cov = [draw(st.integers(0, npts - 1))]
    elif mode == "all":
        with_cov = list(range(npts))
    else:
        with_cov = sorted(draw(st.sets(st.integers(0, npts - 1), max_size=npts)))
    covs = {str(i): draw(cov_spec(frame, FRAMES)) for i in with_cov}
    method = draw(st.sampled_from(["lagrange", "lagrange", "linear"]))
    epoch = draw(date_spec(lo_year=2001, hi_year=2019) if jpl else date_spec())
    return dict(
        frame=frame, el=el, steps_us=steps, nus=nus, covs=covs,
        epoch=epoch,
        labels=label_mix(draw, epoch, npts),
        # order in which the points are handed to Ephem (it sorts them): a permutation of range(npts)
        order_in=draw(st.permutations(range(npts))) if draw(st.sampled_from(range(3))) == 0 else list(range(npts)),
        method=method, order=draw(st.integers(1, 10)),
        name=draw(opt(text(14))), cospar_id=draw(opt(cospar)),
        form=draw(st.sampled_from(["cartesian", "cartesian", "cartesian", "keplerian", "spherical"])),
    )


@st.composite
def oem_spec(draw, jpl=False):
    n = draw(st.sampled_from([1, 1, 1, 1, 2, 2, 3, 4]))
    return dict(type="oem", ephems=[draw(ephem_spec(jpl=jpl)) for _ in range(n)],
                as_list=True if n > 1 else draw(st.booleans()),
                container=draw(st.sampled_from(["list", "list", "tuple"])),
                # the same Ephem object a second time at the end of the list
                same_twice=draw(st.sampled_from(range(6))) == 0,
                # what the caller did with the ephemerides before writing them: built the lazy interpolator, changed the
                # interpolation settings after that, iterated over them
                pre=draw(st.sampled_from([None, None, None, "interp", "interp-then-settings", "iterate"])))


def build_ephem(spec, pre=None):
    from beyond.orbits import Ephem, StateVector

    pts = []
    t = 0
    for k, (step, nu) in enumerate(zip(spec["steps_us"], spec["nus"])):
        t += step
        el = dict(spec["el"], nu=nu)
        date = relabel(build_date(spec["epoch"], t), (spec.get("labels") or [None] * (k + 1))[k])
        sv = StateVector(go.cart_of(el), date, "cartesian", spec["frame"])
        if str(k) in spec["covs"]:
            attach_cov(sv, spec["covs"][str(k)])
        pts.append(sv)
    pts = [pts[k] for k in spec.get("order_in", range(len(pts)))]
    if pre in ("interp", "interp-then-settings") and any(st_ < 5 for st_ in spec["steps_us"][1:]):
        # points closer than the resolution of the float day count the interpolator works with (0.6 us) are
        # legitimately refused by it ("xs is not monotonically increasing"): no interpolator is built for such tables
        pre = None
    if pre == "interp-then-settings":
        # built with other settings, interpolator constructed (it takes the settings over), settings then changed
        eph = Ephem(pts, method="lagrange" if spec["method"] == "linear" else "linear", order=spec["order"] % 10 + 1)
        eph.interp
        eph.method, eph.order = spec["method"], spec["order"]
    else:
        eph = Ephem(pts, method=spec["method"], order=spec["order"])
        if pre == "interp":
            eph.interp
        elif pre == "iterate":
            list(eph)
            next(iter(eph))
    if spec["name"] is not None:
        eph.name = spec["name"]
    if spec["cospar_id"] is not None:
        eph.cospar_id = spec["cospar_id"]
    if spec["form"] != "cartesian":
        eph.form = spec["form"]
    return eph


def build_oem(spec):
    ephs = [build_ephem(e, spec.get("pre")) for e in spec["ephems"]]
    if spec.get("same_twice"):
        ephs.append(ephs[-1])
    if len(ephs) == 1 and not spec["as_list"]:
        return ephs[0]
    return tuple(ephs) if spec.get("container") == "tuple" else ephs


# ------------------------------------------------------------------ mean elements (OMM)


def tle_checksum(line):
    s = 0
    for c in line[:68]:
        if c.isdigit():
            s += int(c)
        elif c == "-":
            s += 1
    return s % 10


def _tle_exp(mant, exp):
    """'decimal point assumed' field: mant = signed 5-digit integer, value = 0.mant x 10^exp"""
    sign = "-" if mant < 0 else " "
    return f"{sign}{abs(mant):05d}{'-' if exp < 0 else '+'}{abs(exp)}"


def tle_text(t):
    """Two (or three) TLE lines from the integer fields of the spec (format table: beyond/io/tle.py docstring
    = the public TLE definition)."""
    ndot = t["ndot_e8"]
    ndot_txt = f"{'-' if ndot < 0 else ' '}.{abs(ndot):08d}"
    l1 = (f"1 {t['norad']:05d}{t['classification']} {t['intl']:<8s} {t['yy']:02d}{t['doy_e8'] / 1e8:012.8f} "
          f"{ndot_txt} {_tle_exp(t['nddot_m'], t['nddot_x'])} {_tle_exp(t['bstar_m'], t['bstar_x'])} "
          f"{t['etype']} {t['elnb']:4d}")
    l2 = (f"2 {t['norad']:05d} {t['i_e4'] / 1e4:8.4f} {t['raan_e4'] / 1e4:8.4f} {t['e_e7']:07d} "
          f"{t['argp_e4'] / 1e4:8.4f} {t['M_e4'] / 1e4:8.4f} {t['n_e8'] / 1e8:11.8f}{t['revs']:5d}")
    assert len(l1) == 68 and len(l2) == 68, (len(l1), len(l2), l1, l2)
    l1 += str(tle_checksum(l1))
    l2 += str(tle_checksum(l2))
    lines = [l1, l2]
    if t["name"] is not None:
        lines.insert(0, t["name"])
    return "\n".join(lines)


def _edge(strategy, edges):
    return st.sampled_from(range(6)).flatmap(lambda k: st.sampled_from(edges) if k == 0 else strategy)


@st.composite
def tle_fields(draw):
    deep = draw(st.sampled_from(range(5))) == 0
    n_e8 = draw(wint(1_00000000, 2_20000000)) if deep else draw(wint(11_00000000, 16_40000000))
    return dict(
        name=draw(opt(text(14), 6)),
        norad=draw(wint(1, 99999)),
        classification=draw(st.sampled_from(["U"] * 8 + ["C", "S"])),
        intl=draw(st.sampled_from(range(8)).flatmap(lambda k: st.just("") if k == 0 else st.builds(lambda y, n, p: f"{y:02d}{n:03d}{p}", st.integers(0, 99),
                                                 st.integers(1, 999), st.sampled_from(["A", "B", "AB", "ZZZ"])))),
        yy=draw(st.integers(0, 99)),
        doy_e8=draw(wint(1_00000000, 365_99999999)),
        ndot_e8=draw(wint(-99999, 999999)),
        nddot_m=draw(st.sampled_from([0, 0, 0, 12345, -20000])), nddot_x=draw(st.integers(-9, 0)),
        bstar_m=draw(wint(-99999, 99999)), bstar_x=draw(st.integers(-7, 0)),
        etype=draw(st.sampled_from([0] * 9 + [2])),
        elnb=draw(wint(0, 9999)),
        # one field in six sits on an end of its range (equatorial, circular, an angle of 0 or 359.9999 deg)
        i_e4=draw(_edge(wint(0, 180_0000), [0, 180_0000])), raan_e4=draw(_edge(wint(0, 359_9999), [0, 359_9999])),
        e_e7=draw(_edge(wint(0, 7000000 if deep else 300000), [0])),
        argp_e4=draw(_edge(wint(0, 359_9999), [0, 359_9999])), M_e4=draw(_edge(wint(0, 359_9999), [0, 359_9999])),
        n_e8=n_e8, revs=draw(wint(0, 99999)),
    )


@st.composite
def omm_spec(draw):
    """source 'tle' : Tle(text).orbit()  (UTC epoch, carries the Tle object)
       source 'direct': Orbit(elements, date, 'TLE', 'TEME', 'Sgp4', bstar=..., ...) - the constructor call the
       library's own OMM reader makes; any time scale."""
    src = draw(st.sampled_from(["tle", "tle", "direct"]))
    spec = dict(type="omm", source=src, tle=draw(tle_fields()), user=draw(user_fields()),
                cov=draw(opt(cov_spec("TEME", FRAMES), 2)))
    if src == "tle" and draw(st.integers(0, 2)) == 0:
        # the element set is updated after the orbit was made from the TLE (an orbit determination re-publishing it):
        # the orbit's own fields are what has to be written, not those of the Tle object it still carries
        other = draw(tle_fields())
        keys = draw(st.lists(st.sampled_from(["bstar", "ndot", "ndotdot", "element_nb", "revolutions", "norad_id"]),
                             min_size=1, max_size=4, unique=True))
        spec["edits"] = dict(keys=keys, other=other, via_copy=draw(st.booleans()))
    if src == "direct":
        spec["off_grid"] = draw(st.sampled_from([0.0, 0.0, 0.00004, 0.00006]))  # deg added to the four angles
        spec["epoch"] = draw(date_spec())
        spec["cospar_id"] = draw(opt(cospar))
    return spec


def build_omm(spec):
    import numpy as np

    t = spec["tle"]
    if spec["source"] == "tle":
        from beyond.io.tle import Tle

        orb = Tle(tle_text(t)).orbit()
        ed = spec.get("edits")
        if ed:
            o = ed["other"]
            if ed["via_copy"]:
                orb = orb.copy()
            new = dict(bstar=o["bstar_m"] * 1e-5 * 10.0 ** o["bstar_x"], ndot=o["ndot_e8"] * 1e-8 * 2,
                       ndotdot=o["nddot_m"] * 1e-5 * 10.0 ** o["nddot_x"] * 6, element_nb=o["elnb"],
                       revolutions=o["revs"], norad_id=o["norad"])
            for k in ed["keys"]:
                setattr(orb, k, new[k])
    else:
        from beyond.orbits import Orbit

        og = spec.get("off_grid", 0.0)
        el = [np.radians(t["i_e4"] / 1e4), np.radians(t["raan_e4"] / 1e4 + og), t["e_e7"] / 1e7,
              np.radians(t["argp_e4"] / 1e4 + og), np.radians(t["M_e4"] / 1e4 + og),
              t["n_e8"] / 1e8 * 2 * np.pi / 86400.0]
        kw = dict(
            bstar=t["bstar_m"] * 1e-5 * 10.0 ** t["bstar_x"],
            ndot=t["ndot_e8"] * 1e-8 * 2,
            ndotdot=t["nddot_m"] * 1e-5 * 10.0 ** t["nddot_x"] * 6,
            norad_id=t["norad"], element_nb=t["elnb"], revolutions=t["revs"],
            ephemeris_type=t["etype"], classification_type=t["classification"],
        )
        if t["name"] is not None:
            kw["name"] = t["name"]
        if spec["cospar_id"] is not None:
            kw["cospar_id"] = spec["cospar_id"]
        orb = Orbit(el, build_date(spec["epoch"]), "TLE", "TEME", "Sgp4", **kw)
    if spec["cov"]:
        attach_cov(orb, spec["cov"])
    if spec["user"]:
        orb._data["ccsds_user_defined"] = {k: v for k, v in spec["user"]}
    return orb


# ------------------------------------------------------------------ tracking data (TDM)

MEASURES = ["Range", "Azimut", "Elevation", "Doppler"]


@st.composite
def tdm_spec(draw):
    names = draw(st.lists(text(8), min_size=2, max_size=4, unique=True))
    npaths = draw(st.sampled_from([1, 1, 1, 2, 2, 3]))
    paths = []
    for _ in range(30):
        if len(paths) == npaths:
            break
        if draw(st.booleans()):
            a, b = draw(st.permutations(names))[:2]
            p = [a, b]  # 2 participants, one way
        else:
            a, b, c = (draw(st.permutations(names)) * 2)[:3]
            p = draw(st.sampled_from([[a, b, a], [a, b, c]]))  # two-way / three-way
        if p not in paths and len(set(p)) > 1:
            paths.append(p)
    nmeas = draw(st.sampled_from([1, 2, 3, 4, 6, 8, 12]))
    kinds = draw(st.sampled_from([["Range", "Azimut", "Elevation"], ["Range"], ["Azimut", "Elevation"],
                                  MEASURES, ["Elevation"], ["Doppler"], ["Range", "Doppler"]]))
    ms = []
    t = 0
    for _ in range(nmeas):
        t += draw(wint(0, 600 * 1000)) * 1000
        for kind in kinds:
            if len(kinds) > 1 and draw(st.sampled_from(range(6))) == 0:
                continue
            m = dict(kind=kind, path=draw(st.sampled_from(range(len(paths)))), dt_us=t)
            if kind == "Range":
                m["value"] = draw(wint(0, 10**12)) * 1e-3  # m, mm grid, up to 1e6 km
                if draw(st.sampled_from(range(4))) == 0:
                    m["value"] = draw(go.uniform(0.0, 1e9))
            elif kind == "Azimut":
                m["value"] = draw(go.uniform(-2 * math.pi, 2 * math.pi))  # beyond's azimuth is counted negatively
            elif kind == "Elevation":
                m["value"] = draw(go.uniform(-math.pi / 2, math.pi / 2))
            else:
                m["value"] = draw(go.uniform(-8000.0, 8000.0))
            if draw(st.sampled_from(range(6))) == 0:
                # ties: the ends of the ranges of the written fields
                m["value"] = draw(st.sampled_from({"Range": [0.0], "Azimut": [0.0, 2 * math.pi, -2 * math.pi, math.pi, -0.0],
                                                   "Elevation": [0.0, math.pi / 2, -math.pi / 2],
                                                   "Doppler": [0.0]}[kind]))
            ms.append(m)
    if not ms:
        ms.append(dict(kind=kinds[0], path=0, dt_us=0, value=0.5))
    epoch = draw(date_spec())
    for m, lab in zip(ms, label_mix(draw, epoch, len(ms))):
        m["label"] = lab
    return dict(type="tdm", paths=paths, measures=ms, epoch=epoch)


def build_tdm(spec):
    from beyond.utils import measures as M

    out = M.MeasureSet()
    for m in spec["measures"]:
        cls = getattr(M, m["kind"])
        out.append(cls(spec["paths"][m["path"] % len(spec["paths"])],
                       relabel(build_date(spec["epoch"], m["dt_us"]), m.get("label")), m["value"]))
    return out


BUILDERS = dict(opm=build_opm, oem=build_oem, omm=build_omm, tdm=build_tdm)


def build(spec):
    return BUILDERS[spec["type"]](spec)
