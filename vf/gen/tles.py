"""Hypothesis strategies for two-line element sets.

A TLE is drawn as the dict of grid integers documented in vf/oracles/tlefmt.py; the text is
produced by that module's formatter, never by the library.  Two families:

* `fields(...)`      - the whole format (C12): any field combination the format allows.
* `sgp4_fields(...)` - physically meaningful element sets inside the domain of C07.
"""

import math

from hypothesis import strategies as st

from ..oracles import tlefmt

UPPER = "ABCDEFGHIJKLMNOPQRSTUVWXYZ"
# printable ASCII for the name line
NAME_ALPHABET = "".join(chr(c) for c in range(0x20, 0x7F))


def uniform_int(lo, hi):
    """Uniform integer in [lo, hi], every decimal digit uniform: Hypothesis' own wide integer
    ranges are heavily biased towards small magnitudes, ranges <= 1000 are uniform, so the
    number is assembled from uniform 3-digit groups (modulo bias < 1e-3)."""
    span = hi - lo + 1
    if span <= 1000:
        return st.integers(lo, hi)
    groups = len(str(span)) // 3 + 2
    return st.tuples(*[st.integers(0, 999)] * groups).map(
        lambda g: lo + int("".join(f"{x:03d}" for x in g)) % span)


def uniform(lo, hi):
    """Uniform float in [lo, hi) on a 1e-12 grid of the interval."""
    return uniform_int(0, 10**12 - 1).map(lambda k: lo + (hi - lo) * (k / 1e12))


def ints(lo, hi, edges=()):
    """Mixture: 6 uniform, 1 Hypothesis-biased (zero / small magnitudes), 1 edge values."""
    edges = [e for e in edges if lo <= e <= hi] + [lo, hi]
    return _mix((6, uniform_int(lo, hi)), (1, st.integers(lo, hi)), (1, st.sampled_from(edges)))


def floats(lo, hi, edges=()):
    edges = [e for e in edges if lo <= e <= hi] + [lo, hi]
    return _mix((6, uniform(lo, hi)), (1, st.floats(lo, hi, allow_nan=False)), (1, st.sampled_from(edges)))


def _mix(*pairs):
    """Weighted one_of: pairs of (weight, strategy)."""
    pool = []
    for w, s in pairs:
        pool += [s] * w
    return st.one_of(*pool) if len(pool) > 1 else pool[0]


@st.composite
def names(draw, for_from_string=False):
    """Trimmed printable name that cannot be mistaken for line 0/1/2 (or a comment)."""
    s = draw(st.text(NAME_ALPHABET, min_size=1, max_size=24)).strip()
    if not s:
        s = "SAT"
    if s[:2] in ("1 ", "2 ", "0 ") or s in ("0", "1", "2"):
        s = "X" + s
    if for_from_string and s[0] == "#":
        s = "X" + s
    return s


@st.composite
def designators(draw):
    if draw(st.integers(0, 3)) == 0:
        return None
    return dict(
        yy=draw(st.integers(0, 99)),
        launch=draw(_mix((3, st.integers(1, 999)), (1, st.sampled_from([1, 9, 10, 99, 100, 999])))),  # <= 1000: uniform
        piece=draw(st.text(UPPER, min_size=1, max_size=3)),
    )


@st.composite
def exp_fields(draw, canonical=True, xlo=-9, xhi=9, allow_negative=True):
    """mantissa/exponent field {"s","m","x"}; canonical = normalised mantissa, zero as +00000 x=0."""
    kind = draw(st.integers(0, 9))
    if kind == 0:
        if canonical:
            return dict(s=1, m=0, x=0)
        return dict(s=draw(st.sampled_from([1, 1, -1])), m=0, x=draw(st.integers(xlo, xhi)))
    s = draw(st.sampled_from([1, -1])) if allow_negative else 1
    if canonical or draw(st.integers(0, 3)) > 0:
        m = draw(ints(10000, 99999, [50000, 12345]))
    else:
        m = draw(ints(1, 9999))
    # real TLEs live on -3..-5; the rest of the exponent range is the rarely populated part
    x = draw(_mix((1, st.integers(-5, -3)), (2, st.integers(xlo, xhi))))
    return dict(s=s, m=m, x=x)


def _year_days(yy):
    return 366 if tlefmt.is_leap(tlefmt.year4(yy)) else 365


@st.composite
def epochs(draw, yy_strategy=None):
    yy = draw(yy_strategy if yy_strategy is not None
              else _mix((4, st.integers(0, 99)), (1, st.sampled_from([57, 99, 0, 56, 72, 16]))))
    nd = _year_days(yy)
    day = draw(_mix((4, st.integers(1, nd)), (1, st.sampled_from([1, 9, 10, 99, 100, nd]))))
    frac = draw(ints(0, 10**8 - 1, [1, 5 * 10**7, 5 * 10**7 - 1]))
    return yy, day * 10**8 + frac


@st.composite
def styles(draw):
    """Non-canonical but legal encodings (field-preservation clause only)."""
    st_ = {}
    for key in ("ndot_plus", "nddot_plus", "bstar_plus"):
        if draw(st.integers(0, 2)) == 0:
            st_[key] = True
    for key in ("nddot_x0", "bstar_x0"):
        k = draw(st.integers(0, 3))
        if k < 2:
            st_[key] = "+-"[k]
    if draw(st.integers(0, 3)) == 0:
        st_["elnum_pad"] = "0"
    if draw(st.integers(0, 3)) == 0:
        st_["rev_pad"] = "0"
    if draw(st.integers(0, 3)) == 0:
        st_["day_pad"] = " "
    return st_


@st.composite
def fields(draw, canonical=True, with_name=None, for_from_string=False):
    """Any field combination allowed by the format."""
    f = {}
    named = draw(st.booleans()) if with_name is None else with_name
    f["name"] = draw(names(for_from_string)) if named else None
    f["cat"] = draw(ints(0, 99999, [1, 9, 10, 10000]))
    f["desig"] = draw(designators())
    f["eyy"], f["eday"] = draw(epochs())
    f["ndot"] = draw(_mix((3, ints(-99999999, 99999999, [0, 1, -1, 10000000, -10000000])),
                          (2, ints(-99999, 99999, [0]))))
    f["nddot"] = draw(exp_fields(canonical))
    f["bstar"] = draw(exp_fields(canonical))
    f["elnum"] = draw(_mix((2, ints(1000, 9999)), (1, st.integers(0, 999)),
                           (1, st.sampled_from([0, 9, 10, 99, 100, 999, 1000, 9999]))))
    f["rev"] = draw(ints(0, 99999, [9, 10, 9999, 10000]))
    ang = ints(0, 3599999, [1, 9999, 10000, 99999, 100000, 999999, 1000000])
    f["inc"] = draw(ints(0, 1800000, [1, 900000, 99999, 100000, 999999, 1000000]))
    f["raan"], f["argp"], f["ma"] = draw(ang), draw(ang), draw(ang)
    f["ecc"] = draw(ints(0, 9999999, [1, 999, 1000, 999999, 1000000]))
    f["n"] = draw(ints(0, 17 * 10**8 - 1, [1, 10**8, 10**9 - 1, 10**9, 100270000]))
    if not canonical:
        f["style"] = draw(styles())
        f["cls"] = draw(st.sampled_from("UUCS"))
        f["etype"] = draw(st.sampled_from([0, 0, 0, 2, 4]))
    return f


def nontrivial(f):
    """C12's rule: element number >= 1000, or negative ndot, or an exponent outside -3..-5, or
    an empty designator."""
    return bool(
        f["elnum"] >= 1000
        or f["ndot"] < 0
        or not (-5 <= f["nddot"]["x"] <= -3)
        or not (-5 <= f["bstar"]["x"] <= -3)
        or not f.get("desig")
    )


def classes(f):
    c = []
    if f["elnum"] >= 1000:
        c.append("elnum>=1000")
    if f["ndot"] < 0:
        c.append("ndot<0")
    if not f.get("desig"):
        c.append("no-designator")
    if f.get("name"):
        c.append("named")
    if f["bstar"]["m"] == 0:
        c.append("bstar=0")
    elif not (-5 <= f["bstar"]["x"] <= -3):
        c.append("bstar-exp-rare")
    if f["bstar"]["s"] < 0 and f["bstar"]["m"]:
        c.append("bstar<0")
    return c


# ------------------------------------------------------------------------------ C07

# WGS-72 values as published with SGP4 (Spacetrack report 3, Vallado et al. 2006)
_MU72 = 398600.8  # km3/s2
_RE72 = 6378.135  # km


def perigee_alt_km(n_revday, e):
    """Kozai mean motion -> two-body semi-major axis -> perigee altitude (generator guard only)."""
    n = n_revday * 2 * math.pi / 86400.0
    a = (_MU72 / n**2) ** (1.0 / 3.0)
    return a * (1 - e) - _RE72


@st.composite
def sgp4_fields(draw, regime="any", min_perigee_km=120.0):
    """Element sets in C07's domain: any inclination, e in [0, 0.9], n in [0.5, 16.5] rev/day,
    perigee above `min_perigee_km`, |B*| <= 1e-2, epochs 1973-2017.

    regime: "near" (period < 225 min), "deep" (period >= 225 min), "native" (period < 225 min and
    perigee >= 220 km, the reference's full near-Earth model), "any".
    """
    f = {"name": draw(names()) if draw(st.integers(0, 3)) == 0 else None}
    f["cat"] = draw(ints(1, 99999))
    f["desig"] = draw(designators())
    # 1973-01-03 .. 2017: years 73..99, 00..17
    yy = draw(_mix((27, st.integers(73, 99)), (18, st.integers(0, 17))))
    f["eyy"], f["eday"] = draw(epochs(st.just(yy)))
    if yy == 73 and f["eday"] < 3 * 10**8:
        f["eday"] += 2 * 10**8
    # 6.4 rev/day <=> 225 min
    lim = 1440.0 / 225.0
    if regime == "deep":
        nlo, nhi = 0.5, lim - 1e-6
    elif regime in ("near", "native"):
        nlo, nhi = lim + 1e-6, 16.5
    else:
        nlo, nhi = 0.5, 16.5
    floor_km = max(min_perigee_km, 220.5) if regime == "native" else min_perigee_km
    n = draw(_mix((4, uniform(nlo, nhi)),
                  (1, st.sampled_from([x for x in (1.0027, 2.0056, 1.0, 2.0, 0.5, 6.3, 6.5, 15.5, 16.5, 14.2)
                                       if nlo <= x <= nhi]))))
    # eccentricity: mass at 0, below 1e-4, above 0.5 - capped by the perigee floor
    a = (_MU72 / (n * 2 * math.pi / 86400.0) ** 2) ** (1.0 / 3.0)
    emax = min(0.9, 1 - (_RE72 + floor_km + 0.5) / a)
    if emax < 0:
        # orbit too low for this mean motion: lower n until the circular orbit clears the floor
        n = min(n, 86400.0 / (2 * math.pi) * math.sqrt(_MU72 / (_RE72 + floor_km + 1.0) ** 3))
        a = (_MU72 / (n * 2 * math.pi / 86400.0) ** 2) ** (1.0 / 3.0)
        emax = max(0.0, min(0.9, 1 - (_RE72 + floor_km + 0.5) / a))
    kind = draw(st.integers(0, 9))
    if kind == 0:
        e = 0.0
    elif kind <= 2:
        e = min(emax, 10 ** draw(uniform(-7, -4)))
    elif kind <= 4 and emax > 0.5:
        e = draw(uniform(0.5, emax))
    else:
        e = draw(uniform(0, emax))
    f["n"] = int(round(n * 10**8))
    f["ecc"] = min(int(e * 10**7), 9000000)
    inc = draw(_mix((6, uniform(0, 180)), (2, uniform(90, 180)),
                    (1, st.sampled_from([0.0, 180.0, 90.0, 63.4349, 116.5651, 98.0, 51.6, 28.5, 0.0001, 179.9999]))))
    f["inc"] = int(round(inc * 10**4))
    ang = ints(0, 3599999)
    f["raan"], f["argp"], f["ma"] = draw(ang), draw(ang), draw(ang)
    # B*: |B*| <= 1e-2 including 0 and negative
    k = draw(st.integers(0, 9))
    if k == 0:
        f["bstar"] = dict(s=1, m=0, x=0)
    else:
        x = draw(st.integers(-8, -2))
        m = draw(uniform_int(10000, 99999))  # 0.99999e-2 at most
        s = -1 if draw(st.integers(0, 4)) == 0 else 1
        f["bstar"] = dict(s=s, m=m, x=x)
        if draw(st.integers(0, 19)) == 0:
            f["bstar"] = dict(s=s, m=10000, x=-1)  # |B*| = 1e-2, the bound itself
    # ndot/2 small, both signs (not used by SGP4, but travels through the text)
    f["ndot"] = draw(_mix((1, st.just(0)), (4, uniform_int(-99999, 99999))))
    f["nddot"] = draw(_mix((2, st.just(dict(s=1, m=0, x=0))),
                           (1, st.builds(lambda s, m, x: dict(s=s, m=m, x=x), st.sampled_from([1, -1]),
                                         uniform_int(10000, 99999), st.integers(-9, -5)))))
    f["elnum"] = draw(uniform_int(0, 9999))
    f["rev"] = draw(uniform_int(0, 99999))
    return f


def sgp4_classes(f):
    c = []
    if f["n"] < 6.4 * 10**8:
        c.append("deep-space")
    if f["inc"] > 900000:
        c.append("retrograde")
    if f["ecc"] < 1000:
        c.append("e<1e-4")
    if f["ecc"] > 5000000:
        c.append("e>0.5")
    if f["bstar"]["m"] == 0:
        c.append("bstar=0")
    elif f["bstar"]["s"] < 0:
        c.append("bstar<0")
    return c
