"""Hypothesis strategies for two-line element sets.

A TLE is drawn as the dict of grid integers documented in vf/oracles/tlefmt.py; the text is
produced by that module's formatter, never by the library.  Two families:

* `fields(...)`      - the whole format (C12): any field combination the format allows.
* `sgp4_fields(...)` - physically meaningful element sets inside the domain of C07.
"""

import functools
import math

from hypothesis import strategies as st

from ..oracles import tlefmt

UPPER = "ABCDEFGHIJKLMNOPQRSTUVWXYZ"
# printable ASCII for the name line
NAME_ALPHABET = "".join(chr(c) for c in range(0x20, 0x7F))


@functools.lru_cache(maxsize=None)
def uniform_int(lo, hi):
    """Uniform integer in [lo, hi], every decimal digit uniform.  Hypothesis' own wide integer
    ranges are heavily biased towards small magnitudes (ranges <= 1000 are uniform), so wide
    ranges are taken from 8 uniformly drawn bytes (one draw; modulo bias < 1e-6; shrinks to lo)."""
    span = hi - lo + 1
    if span <= 1000:
        return st.integers(lo, hi)
    return st.binary(min_size=8, max_size=8).map(lambda b: lo + int.from_bytes(b, "big") % span)


@functools.lru_cache(maxsize=None)
def uniform(lo, hi):
    """Uniform float in [lo, hi) on a 1e-12 grid of the interval."""
    return uniform_int(0, 10**12 - 1).map(lambda k: lo + (hi - lo) * (k / 1e12))


def ints(lo, hi, edges=()):
    """Mixture: 6 uniform, 1 Hypothesis-biased (zero / small magnitudes), 1 edge values.
    (strategies are cached: building one costs far more than drawing from it)"""
    return _ints(lo, hi, tuple(edges))


def floats(lo, hi, edges=()):
    return _floats(lo, hi, tuple(edges))


@functools.lru_cache(maxsize=None)
def _ints(lo, hi, edges):
    edges = [e for e in edges if lo <= e <= hi] + [lo, hi]
    return _mix((6, uniform_int(lo, hi)), (1, st.integers(lo, hi)), (1, st.sampled_from(edges)))


@functools.lru_cache(maxsize=None)
def _floats(lo, hi, edges):
    edges = [e for e in edges if lo <= e <= hi] + [lo, hi]
    return _mix((6, uniform(lo, hi)), (1, st.floats(lo, hi, allow_nan=False)), (1, st.sampled_from(edges)))


def _mix(*pairs):
    """Weighted choice between strategies: pairs of (weight, strategy).  (st.one_of drops repeated
    branches, so weights cannot be expressed by repetition: an index is drawn instead.)"""
    if len(pairs) == 1:
        return pairs[0][1]
    table = []
    for w, s in pairs:
        table += [s] * w
    return st.integers(0, len(table) - 1).flatmap(table.__getitem__)


UNIT = uniform(0.0, 1.0)
_NAME_TEXT = st.text(NAME_ALPHABET, min_size=1, max_size=24)
_PIECE = st.text(UPPER, min_size=1, max_size=3)
_LAUNCH = _mix((3, st.integers(1, 999)), (1, st.sampled_from([1, 9, 10, 99, 100, 999])))  # <= 1000: uniform
_YY = _mix((4, st.integers(0, 99)), (1, st.sampled_from([57, 99, 0, 56, 72, 16])))
_DAY = {nd: _mix((4, st.integers(1, nd)), (1, st.sampled_from([1, 9, 10, 99, 100, nd]))) for nd in (365, 366)}
_NDOT = _mix((3, ints(-99999999, 99999999, [0, 1, -1, 10000000, -10000000])), (2, ints(-99999, 99999, [0])))
_ELNUM = _mix((2, ints(1000, 9999)), (1, st.integers(0, 999)),
              (1, st.sampled_from([0, 9, 10, 99, 100, 999, 1000, 9999])))


@functools.lru_cache(maxsize=None)
def _exp_x(xlo, xhi):
    # real TLEs live on -3..-5; the rest of the exponent range is the rarely populated part
    return _mix((1, st.integers(-5, -3)), (2, st.integers(xlo, xhi)))


@functools.lru_cache(maxsize=None)
@st.composite
def names(draw, for_from_string=False):
    """Trimmed printable name that cannot be mistaken for line 0/1/2 (or a comment)."""
    s = draw(_NAME_TEXT).strip()
    if not s:
        s = "SAT"
    if s[:2] in ("1 ", "2 ", "0 ") or s in ("0", "1", "2"):
        s = "X" + s
    if for_from_string and s[0] == "#":
        s = "X" + s
    return s


@functools.lru_cache(maxsize=None)
@st.composite
def designators(draw):
    if draw(st.integers(0, 3)) == 0:
        return None
    return dict(
        yy=draw(st.integers(0, 99)),
        launch=draw(_LAUNCH),
        piece=draw(_PIECE),
    )


@functools.lru_cache(maxsize=None)
@st.composite
def exp_fields(draw, canonical=True, xlo=-9, xhi=9, allow_negative=True):
    """mantissa/exponent field {"s","m","x"}; canonical = normalised mantissa, zero as +00000 x=0."""
    kind = draw(st.integers(0, 9))
    if kind == 0:
        if canonical:
            return dict(s=1, m=0, x=0)
        return dict(s=draw(st.sampled_from([1, 1, -1])), m=0, x=draw(st.integers(xlo, xhi)))
    s = draw(st.sampled_from([1, -1])) if allow_negative else 1
    if canonical or draw(st.integers(0, 3)) > 0:
        m = draw(ints(10000, 99999, [50000, 12345]))
    else:
        m = draw(ints(1, 9999))
    x = draw(_exp_x(xlo, xhi))
    return dict(s=s, m=m, x=x)


def _year_days(yy):
    return 366 if tlefmt.is_leap(tlefmt.year4(yy)) else 365


_NEAR_MIDNIGHT = uniform_int(0, 162000)  # 1e-8 day units: within 140 s


@functools.lru_cache(maxsize=None)
@st.composite
def epochs(draw, yy=None):
    """(two-digit year, day of year * 1e8).  A quarter of the draws lie within 140 s of a UTC
    midnight, half of those at the turn of the year (day 1.000x or last day .999x)."""
    if yy is None:
        yy = draw(_YY)
    nd = _year_days(yy)
    kind = draw(st.integers(0, 7))
    if kind >= 2:
        day = draw(_DAY[nd])
        frac = draw(ints(0, 10**8 - 1, [1, 5 * 10**7, 5 * 10**7 - 1]))
    else:
        d = draw(_NEAR_MIDNIGHT)
        after = draw(st.booleans())
        day = (1 if after else nd) if kind == 0 else draw(_DAY[nd])
        frac = d if after else 10**8 - 1 - d
    return yy, day * 10**8 + frac


@functools.lru_cache(maxsize=None)
@st.composite
def styles(draw):
    """Non-canonical but legal encodings (field-preservation clause only)."""
    st_ = {}
    for key in ("ndot_plus", "nddot_plus", "bstar_plus"):
        if draw(st.integers(0, 2)) == 0:
            st_[key] = True
    for key in ("nddot_x0", "bstar_x0"):
        k = draw(st.integers(0, 3))
        if k < 2:
            st_[key] = "+-"[k]
    if draw(st.integers(0, 3)) == 0:
        st_["elnum_pad"] = "0"
    if draw(st.integers(0, 3)) == 0:
        st_["rev_pad"] = "0"
    if draw(st.integers(0, 3)) == 0:
        st_["day_pad"] = " "
    return st_


@functools.lru_cache(maxsize=None)
@st.composite
def fields(draw, canonical=True, with_name=None, for_from_string=False):
    """Any field combination allowed by the format."""
    f = {}
    named = draw(st.booleans()) if with_name is None else with_name
    f["name"] = draw(names(for_from_string)) if named else None
    f["cat"] = draw(ints(0, 99999, [1, 9, 10, 10000]))
    f["desig"] = draw(designators())
    f["eyy"], f["eday"] = draw(epochs())
    f["ndot"] = draw(_NDOT)
    f["nddot"] = draw(exp_fields(canonical))
    f["bstar"] = draw(exp_fields(canonical))
    f["elnum"] = draw(_ELNUM)
    f["rev"] = draw(ints(0, 99999, [9, 10, 9999, 10000]))
    ang = ints(0, 3599999, [1, 9999, 10000, 99999, 100000, 999999, 1000000])
    f["inc"] = draw(ints(0, 1800000, [1, 900000, 99999, 100000, 999999, 1000000]))
    f["raan"], f["argp"], f["ma"] = draw(ang), draw(ang), draw(ang)
    f["ecc"] = draw(ints(0, 9999999, [1, 999, 1000, 999999, 1000000]))
    f["n"] = draw(ints(0, 17 * 10**8 - 1, [1, 10**8, 10**9 - 1, 10**9, 100270000]))
    if not canonical:
        f["style"] = draw(styles())
        f["cls"] = draw(st.sampled_from("UUCS"))
        f["etype"] = draw(st.sampled_from([0, 0, 0, 2, 4]))
    return f


def nontrivial(f):
    """C12's rule: element number >= 1000, or negative ndot, or an exponent outside -3..-5, or
    an empty designator."""
    return bool(
        f["elnum"] >= 1000
        or f["ndot"] < 0
        or not (-5 <= f["nddot"]["x"] <= -3)
        or not (-5 <= f["bstar"]["x"] <= -3)
        or not f.get("desig")
    )


def classes(f):
    c = []
    if f["elnum"] >= 1000:
        c.append("elnum>=1000")
    if f["ndot"] < 0:
        c.append("ndot<0")
    if not f.get("desig"):
        c.append("no-designator")
    if f.get("name"):
        c.append("named")
    if f["bstar"]["m"] == 0:
        c.append("bstar=0")
    elif not (-5 <= f["bstar"]["x"] <= -3):
        c.append("bstar-exp-rare")
    if f["bstar"]["s"] < 0 and f["bstar"]["m"]:
        c.append("bstar<0")
    return c


# ------------------------------------------------------------------------------ C07

# WGS-72 values as published with SGP4 (Spacetrack report 3, Vallado et al. 2006)
_MU72 = 398600.8  # km3/s2
_RE72 = 6378.135  # km


def perigee_alt_km(n_revday, e):
    """Kozai mean motion -> two-body semi-major axis -> perigee altitude (generator guard only)."""
    n = n_revday * 2 * math.pi / 86400.0
    a = (_MU72 / n**2) ** (1.0 / 3.0)
    return a * (1 - e) - _RE72


_LIM = 1440.0 / 225.0  # 6.4 rev/day <=> period of 225 min
_N_RANGE = {"deep": (0.5, _LIM), "near": (_LIM, 16.5), "native": (_LIM, 16.5),
            "any": (0.5, 16.5)}
_N_STRAT = {k: _mix((4, uniform(lo, hi)),
                    (1, st.sampled_from([x for x in (1.0027, 2.0056, 1.0, 2.0, 0.5, 6.3, 6.39, 6.4, 6.40000001, 6.41, 6.5, 15.5, 16.5,
                                                     14.2) if lo <= x <= hi])))
            for k, (lo, hi) in _N_RANGE.items()}
_SGP4_YY = _mix((27, st.integers(73, 99)), (18, st.integers(0, 17)))  # 1973 .. 2017
_INC = _mix((6, uniform(0, 180)), (2, uniform(90, 180)),
            (1, st.sampled_from([0.0, 180.0, 90.0, 63.4349, 116.5651, 98.0, 51.6, 28.5, 0.0001, 179.9999])))
_LOG_E_TINY = uniform(-7, -4)
_ZERO_EXP = dict(s=1, m=0, x=0)
_NDDOT_SGP4 = _mix((2, st.just(_ZERO_EXP)),
                   (1, st.builds(lambda s, m, x: dict(s=s, m=m, x=x), st.sampled_from([1, -1]),
                                 uniform_int(10000, 99999), st.integers(-9, -5))))
_NDOT_SGP4 = _mix((1, st.just(0)), (4, uniform_int(-99999, 99999)))


@functools.lru_cache(maxsize=None)
@st.composite
def sgp4_fields(draw, regime="any", min_perigee_km=120.0):
    """Element sets in C07's domain: any inclination, e in [0, 0.9], n in [0.5, 16.5] rev/day,
    perigee above `min_perigee_km`, |B*| <= 1e-2, epochs 1973-2017.

    regime: "near" (period < 225 min), "deep" (period >= 225 min), "native" (period < 225 min and
    perigee >= 225 km: inside the reference's full near-Earth model), "any".
    """
    f = {"name": draw(names()) if draw(st.integers(0, 3)) == 0 else None}
    f["cat"] = draw(ints(1, 99999))
    f["desig"] = draw(designators())
    yy = draw(_SGP4_YY)
    f["eyy"], f["eday"] = draw(epochs(yy))
    if yy == 73 and f["eday"] < 3 * 10**8:
        f["eday"] += 2 * 10**8  # not before 1973-01-03
    floor_km = max(min_perigee_km, 225.0) if regime == "native" else min_perigee_km
    n = draw(_N_STRAT[regime])
    # eccentricity: mass at 0, below 1e-4, above 0.5 - capped by the perigee floor
    a = (_MU72 / (n * 2 * math.pi / 86400.0) ** 2) ** (1.0 / 3.0)
    emax = min(0.9, 1 - (_RE72 + floor_km + 0.5) / a)
    if emax < 0:
        # orbit too low for this mean motion: lower n until the circular orbit clears the floor
        n = min(n, 86400.0 / (2 * math.pi) * math.sqrt(_MU72 / (_RE72 + floor_km + 1.0) ** 3))
        a = (_MU72 / (n * 2 * math.pi / 86400.0) ** 2) ** (1.0 / 3.0)
        emax = max(0.0, min(0.9, 1 - (_RE72 + floor_km + 0.5) / a))
    kind = draw(st.integers(0, 9))
    u = draw(UNIT)
    if kind == 0:
        e = 0.0
    elif kind <= 2:
        e = min(emax, 10 ** draw(_LOG_E_TINY))
    elif kind <= 4 and emax > 0.5:
        e = 0.5 + (emax - 0.5) * u
    elif kind == 5:
        e = emax  # perigee right at the floor
    elif kind == 6:
        e = min(emax, 10 ** (-5 + 3 * u))  # both sides of the model's e = 1e-4 switch
        if u < 0.4:
            e = min(emax, (0.0000999, 0.0001, 0.0001, 0.0001001)[int(u * 10)])  # ... and exactly on it
    else:
        e = emax * u
    f["n"] = int(round(n * 10**8))
    f["ecc"] = min(int(round(e * 10**7, 3)), 9000000)
    f["inc"] = int(round(draw(_INC) * 10**4))
    ang = ints(0, 3599999)
    f["raan"], f["argp"], f["ma"] = draw(ang), draw(ang), draw(ang)
    # B*: |B*| <= 1e-2 including 0 and negative
    k = draw(st.integers(0, 19))
    if k < 2:
        f["bstar"] = dict(_ZERO_EXP)
    else:
        s = -1 if draw(st.integers(0, 4)) == 0 else 1
        if k == 2:
            f["bstar"] = dict(s=s, m=10000, x=-1)  # |B*| = 1e-2, the bound itself
        else:
            # 0.99999e-2 at most
            f["bstar"] = dict(s=s, m=draw(uniform_int(10000, 99999)), x=draw(st.integers(-8, -2)))
    # ndot/2, nddot/6: not used by SGP4, but they travel through the regenerated text
    f["ndot"] = draw(_NDOT_SGP4)
    f["nddot"] = dict(draw(_NDDOT_SGP4))
    f["elnum"] = draw(uniform_int(0, 9999))
    f["rev"] = draw(uniform_int(0, 99999))
    return f


def sgp4_classes(f):
    c = []
    if f["n"] < 6.4 * 10**8:
        c.append("deep-space")
    if f["inc"] > 900000:
        c.append("retrograde")
    if f["ecc"] < 1000:
        c.append("e<1e-4")
    if f["ecc"] > 5000000:
        c.append("e>0.5")
    if f["bstar"]["m"] == 0:
        c.append("bstar=0")
    elif f["bstar"]["s"] < 0:
        c.append("bstar<0")
    return c
