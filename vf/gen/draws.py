"""Cheap, unbiased draws for case generators.

Two facts about Hypothesis measured while building C09:
  * constructing a strategy inside a composite (`draw(st.integers(a, b))`, `st.sampled_from([...])`,
    `st.one_of(...)`) costs ~0.15 ms per draw in validation and labelling - a case of 90 draws took
    11 ms to generate and 2 ms to check.  Strategies used here are cached module-level objects;
  * wide integer / float ranges are sampled with a strong bias towards small magnitudes; ranges of
    <= 1000 values are uniform.  Floats are therefore built from three 3-digit draws (uniform on a
    1e-9 grid, the same construction as gen.orbits.unit) and wide integers from such a float.
"""

import functools

from hypothesis import strategies as st


@functools.lru_cache(maxsize=None)
def _int(lo, hi):
    return st.integers(lo, hi)


class D:
    """Wrapper over the `draw` of an @st.composite function."""

    def __init__(self, draw):
        self.draw = draw

    def int(self, lo, hi):
        if hi - lo <= 1000:
            return self.draw(_int(lo, hi))
        return lo + int(self.u() * (hi - lo + 1))

    def pick(self, *vals):
        return vals[self.draw(_int(0, len(vals) - 1))]

    def coin(self):
        return self.draw(_int(0, 1)) == 1

    def u(self, lo=0.0, hi=1.0):
        a, b, c = self.draw(_int(0, 999)), self.draw(_int(0, 999)), self.draw(_int(0, 999))
        return lo + (hi - lo) * ((a * 10**6 + b * 1000 + c) / 1e9)

    def grid(self, lo, hi, steps):
        return lo + (hi - lo) * self.draw(_int(0, steps)) / steps

    def signed(self, lo, hi):
        """+-[lo, hi], log-uniform in magnitude."""
        import math

        mag = math.exp(self.u(math.log(lo), math.log(hi)))
        return mag if self.coin() else -mag
