"""Histories of operations on a pool of StateVector / Orbit objects (C15).

A case = {"init": [object spec, ...], "ops": [{"op": ..., "i": pool index, args}, ...]}; all JSON-able.
Indices are taken modulo the pool size by the interpreter (vf/props/c15.py).  Cartesian states come from
the oracle's kep2cart.  Draws go through gen.draws.D (cheap, unbiased).
"""

import math

from hypothesis import strategies as st

from . import orbits as go
from ..oracles import twobody as tb
from .draws import D

INERTIAL = ["EME2000", "GCRF", "MOD", "TOD", "TEME", "CIRF", "G50"]
ROTATING = ["ITRF", "PEF", "TIRF"]
FRAMES = INERTIAL + ROTATING
# same origin and axes as EME2000, central body 1.3 / 1.7 times as massive (heavier only: every generated state stays elliptic) (registered by vf/props/c15.py):
# a change to / from them leaves position and velocity alone and changes every mu-dependent element
SISTERS = ["VF15x1.3", "VF15x1.7"]
ALL_FRAMES = FRAMES + SISTERS
MU_FORMS = ["keplerian", "keplerian_eccentric", "keplerian_mean", "keplerian_circular", "keplerian_mean_circular",
            "equinoctial", "tle"]
FORMS = ["cartesian", "spherical", "cylindrical", "keplerian", "keplerian_eccentric", "keplerian_mean",
         "keplerian_circular", "keplerian_mean_circular", "equinoctial", "tle"]
FORM_SHORT = {"circular": "keplerian_circular", "mean": "keplerian_mean", "mean_circular": "keplerian_mean_circular",
              "eccentric": "keplerian_eccentric"}
SCALES = ["UTC", "TAI", "TT", "GPS", "TDB", "UT1"]
# a name = the string the Orbit constructor accepts; "X()" = an instance; KeplerNum:<step s>:<method>:<tol> = an instance
PROPS = [None, "Kepler", "J2", "Sgp4", "Sgp4Beta", "NonePropagator", "Kepler()", "Sgp4Beta()",
         "KeplerNum:60:rk4:0.001", "KeplerNum:30:dopri54:1e-05", "KeplerNum:10:euler:0.001", "KeplerNum:120:rkf54:0.01"]
META_KEYS = ["name", "cospar_id", "mass", "tags", "cfg", "note", "k1"]
# free metadata whose key differs minimally from a parameter name, an alias or a reserved word: it is metadata
NEAR_KEYS = ["X", "Vx", "omega_", "Raan", "OMEGA", "nu2", "E_", "theta0", "form_", "frame2", "date_", "aol_", "A", "I",
             # ... or from the name of an internal entry (propagator, cov, maneuvers, event): short words contained in them
             "prop", "op", "at", "to", "orb", "man", "co", "eve", "propagator_", "covar"]
BAD_FORMS = ["foo", "keplerian_", "cartesien", "kepler", "TLE2", "mean circular"]
BAD_FRAMES = ["XYZ", "EME2001", "itrf", "J2000", "QSW"]

MUTATORS = ["set_form", "set_frame", "set_coord", "set_meta", "mutate_meta", "append_man", "remove_man",
            "set_mans", "replace_cov_entry", "attach_cov", "del_cov", "set_cov_frame"]
MAKERS = ["copy", "copy_form", "copy_frame", "copy_both", "copy_same", "pickle", "as_orbit", "as_statevector",
          "cov_copy", "clone", "late_frame", "read_infos"]
COV_FRAMES = FRAMES + ["QSW", "TNW", "QSW", "TNW"]
FAILING = ["bad_form", "bad_frame", "hill", "wrong_param", "late_fail", "bodyless"]
# frames registered by vf/props/c15.py whose use fails LATE: axes known, origin not (a tabulated chief whose table
# ends in 1990; an orbit without propagator) - and one that fails early (local axes need the reference too)
LATE_TARGETS = ["VF15chief", "VF15chief", "VF15mute", "VF15chiefQ"]


def _meta_value(d):
    k = d.pick("int", "float", "str", "list", "dict")
    if k == "int":
        return d.int(-1000, 1000)
    if k == "float":
        return d.u(-1e3, 1e3)
    if k == "str":
        return d.pick("ISS (ZARYA)", "1998-067A", "x", "", "sat-7")
    if k == "list":
        return [d.int(0, 9) for _ in range(d.int(0, 3))]
    return {d.pick("a", "b", "c"): d.int(0, 9) for _ in range(d.int(0, 2))}


def _man(d):
    return dict(dt_s=d.pick(0, d.int(-3600, 86400), d.int(-3600, 86400)),  # 0: dated exactly at the epoch of the state
                 dv=[d.int(-200, 200) * 0.5 for _ in range(3)],
                frame=d.pick(None, "QSW", "TNW"), comment=d.pick(None, "burn", "sk #2"))


def _cov(d):
    """PSD = L L^T; frame None (= state frame) / QSW / TNW; `as` = how the 36 numbers are handed over:
    float64 array (the caller changes it afterwards), nested lists, nested tuples, python ints / an int64 array
    (integer-valued matrix, e.g. numpy.diag([100, 100, 100, 1, 1, 1]))"""
    how = d.pick("ndarray", "ndarray", "ndarray", "list", "list", "tuple", "ints", "int64")
    L = []
    for i in range(6):
        if how in ("ints", "int64"):
            L.append([float(d.int(1, 9) if i == j else d.int(-3, 3)) for j in range(i + 1)])
        else:
            mag = 10.0 if i < 3 else 1e-2
            L.append([(d.u(0.05, 1.0) if i == j else (d.u(-0.5, 0.5) if d.coin() else 0.0)) * mag
                      for j in range(i + 1)])
    return {"L": L, "frame": d.pick(None, None, "QSW", "TNW"), "as": how}


def _object(d):
    e = d.pick(d.u(0.01, 0.05), d.u(0.05, 0.3))
    rp = go.RADIUS["Earth"] * d.u(1.03, 1.8)
    inc = d.u(0.1, math.pi - 0.1)
    M = d.u(0.0, 2 * math.pi)
    el = dict(body="Earth", a=rp / (1 - e), e=e, i=inc, raan=d.u(0, 2 * math.pi), argp=d.u(0, 2 * math.pi),
              anom=M, nu=tb.E2nu(tb.solve_kepler_E(M, e), e))
    spec = dict(
        el=el,
        frame=d.pick(*ALL_FRAMES),
        form=d.pick(*FORMS),
        klass=d.pick("StateVector", "StateVector", "Orbit"),
        prop=d.pick(*PROPS),
        date=dict(us=d.int(0, 30 * 365 * 86400) * 10**6 + d.int(0, 999999), scale=d.pick(*SCALES)),
        cov=_cov(d) if d.int(0, 2) == 0 else None,
        mans=[_man(d) for _ in range(d.pick(0, 0, 1, 2))],
        meta={d.pick(*META_KEYS): _meta_value(d) for _ in range(d.pick(0, 1, 2, 3))},
        # reading .maneuvers / .cov creates the key with an empty default, which a copy must not share either
        touch=d.coin(),
        # how the six numbers reach the constructor (float64 array / view: the caller changes it afterwards)
        coords_as=d.pick("list", "tuple", "ndarray", "ndarray", "view"),
        # a lone maneuver: in a list, as the object itself through the setter, or as constructor keyword
        man_as=d.pick("list", "setter", "ctor"),
        # form and frame handed to the constructor as names or as the registered objects
        ctor_objects=d.coin(),
    )
    return spec


def _op(d, kind):
    op = dict(op=kind, i=d.int(0, 5))
    if kind in ("copy_form", "set_form", "copy_both"):
        op["form"] = d.pick(*(FORMS + list(FORM_SHORT)))
        op["case"] = d.pick("lower", "lower", "lower", "upper", "title")  # form names are case-insensitive
        op["as_object"] = d.int(0, 3) == 0  # pass the Form / Frame object instead of its name
    if kind in ("copy_frame", "set_frame", "copy_both"):
        op["frame"] = d.pick(*ALL_FRAMES)
        op["as_object"] = d.int(0, 3) == 0
    if kind == "copy_same":
        op["j"] = d.int(0, 5)
    if kind == "set_coord":
        op.update(k=d.int(0, 5), how=d.pick("index", "attr", "item", "alias_attr", "alias_item"),
                  factor=1.0 + d.pick(-1, 1) * d.u(1e-6, 1e-3), alias=d.int(0, 1),
                  vtype=d.pick("float", "float", "numpy.float64", "numpy.float32", "int"),
                  # ties: the very value it has / an angle put exactly on 0 or on a full turn
                  tie=d.pick(None, None, None, "same", "zero-angle", "full-turn"))
    if kind == "set_meta":
        op.update(key=d.pick(*(META_KEYS + NEAR_KEYS)), value=_meta_value(d), how=d.pick("attr", "item"))
    if kind == "mutate_meta":
        op.update(key=d.pick("tags", "cfg", *META_KEYS), item=d.int(0, 9))
    if kind == "append_man":
        op["man"] = _man(d)
    if kind == "remove_man":
        op["k"] = d.int(0, 3)
    if kind == "set_mans":
        op["mans"] = [_man(d) for _ in range(d.int(0, 2))]
        op["single"] = d.coin()  # a lone maneuver handed over as the object itself
    if kind == "replace_cov_entry":
        op.update(a=d.int(0, 5), b=d.int(0, 5), factor=1.0 + d.u(1e-3, 0.5))
    if kind == "attach_cov":
        op["cov"] = _cov(d)
    if kind == "set_cov_frame":
        op["frame"] = d.pick(*COV_FRAMES)
    if kind == "cov_copy":
        op["frame"] = d.pick(None, *COV_FRAMES)
    if kind == "clone":
        op["how"] = d.pick("copy", "deepcopy", "pickle")
    if kind == "as_orbit":
        op["prop"] = d.pick(*PROPS[1:])
    if kind == "bad_form":
        op.update(name=d.pick(*BAD_FORMS), via=d.pick("set", "copy"))
    if kind == "bad_frame":
        op.update(name=d.pick(*BAD_FRAMES), via=d.pick("set", "copy"))
    if kind == "hill":
        op["via"] = d.pick("set", "copy")
    if kind == "late_fail":
        op.update(target=d.pick(*LATE_TARGETS), via=d.pick("set", "set", "copy"))
    if kind == "bodyless":
        # a form that needs mu asked of a state held about a point that is no body (VF15nobody, as the library's own
        # Lagrange-point frames): from a geometric form the route has a first leg that succeeds before the refusal
        op.update(geo=d.pick("spherical", "cylindrical", "spherical", "cylindrical", "cartesian"), target=d.pick(*MU_FORMS),
                  via=d.pick("set", "set", "copy"))
    if kind == "wrong_param":
        op.update(k=d.int(0, 40), how=d.pick("get_attr", "get_item", "set_attr", "set_item"))
    return op


@st.composite
def history(draw, max_ops=6):
    d = D(draw)
    init = [_object(d) for _ in range(d.pick(1, 1, 2, 3))]
    ops = []
    n = d.int(2, max_ops)
    # most histories start by creating a second object out of the first (aliasing needs two)
    for k in range(n):
        group = d.pick("make", "make", "mutate", "mutate", "mutate", "fail")
        if k == 0 and d.int(0, 3) > 0:
            group = "make"
        kinds = {"make": MAKERS, "mutate": MUTATORS, "fail": FAILING}[group]
        ops.append(_op(d, d.pick(*kinds)))
    scenario = d.int(0, 4)
    if scenario == 1:
        # scenario: a state held in a mu-dependent form changes to a frame whose centre has another central body
        a, b = d.pick(("EME2000", SISTERS[0]), ("EME2000", SISTERS[1]), (SISTERS[0], SISTERS[1]), (SISTERS[1], "MOD"),
                      (SISTERS[0], "ITRF"), ("TOD", SISTERS[1]))
        if d.coin():
            a, b = b, a
        init[0]["frame"] = a
        init[0]["form"] = d.pick(*MU_FORMS)
        kind = d.pick("set_frame", "copy_frame", "copy_both", "copy_same")
        move = _op(d, kind)
        move.update(i=0, as_object=d.int(0, 3) == 0)
        if kind == "copy_same":
            if len(init) < 2:
                init.append(_object(d))
            init[1]["frame"] = b
            move["j"] = 1
        else:
            move["frame"] = b
        ops[0] = move
    if scenario == 2:
        # scenario: a state with a covariance (own frame / other frame / local) and maneuvers is asked to move to a
        # frame whose axes are known but whose origin is not defined at its date
        init[0]["cov"] = dict(_cov(d), frame=d.pick(None, None, None, "QSW", "TNW"))
        if d.coin():
            init[0]["mans"] = [_man(d)]
        fail = _op(d, "late_fail")
        fail["i"] = 0
        k = d.int(0, min(1, len(ops) - 1))
        ops[k] = fail
        if k == 1:
            ops[0] = dict(_op(d, d.pick("set_cov_frame", "set_form", "copy", "set_frame")), i=0)
    if scenario == 3:
        # scenario: .infos is read (lazily built and cached), the state - or a copy of it - is then changed,
        # and .infos is read again
        tgt = 0
        seq = [dict(_op(d, "read_infos"), i=0)]
        if d.coin():
            seq.append(dict(_op(d, d.pick("copy", "copy_form", "clone")), i=0))
            tgt = len(init)
        seq.append(dict(_op(d, "set_coord"), i=tgt, tie=None))
        seq.append(dict(_op(d, "read_infos"), i=tgt))
        ops[:len(seq)] = seq
        ops[:] = ops[:max_ops]
    if scenario == 0:
        # scenario: a covariance attached in an inertial frame is moved in place to a rotating frame
        # (with its state, or alone), and only then the object is copied
        init[0]["frame"] = d.pick(*INERTIAL)
        init[0]["cov"] = dict(_cov(d), frame=None)
        move = _op(d, d.pick("set_frame", "set_cov_frame"))
        # PEF more often: conversions through the IAU-2010 series (ITRF / TIRF) cost ~10 ms each
        move.update(i=0, frame=d.pick("PEF", "PEF", "PEF", "ITRF", "TIRF"), as_object=False)
        make = _op(d, d.pick("copy", "copy", "as_orbit", "as_statevector", "copy_frame", "copy_form", "pickle",
                             "cov_copy"))
        make["i"] = 0
        ops[:2] = [move, make]
    return dict(init=init, ops=ops)
