"""Hypothesis strategies for instants and scale labels (DESIGN section 3, "Dates").

An instant is an integer: microseconds of its *UTC* clock reading since 1973-01-03 0h
(MJD 41685, `oracles.iers.BASE_MJD`).  The clock reading in any other scale comes from the
oracle (`iers.readings`), never from the library.  The +-120 s windows around every leap second
are excluded by construction (shifted out), not by `assume`.
"""

import datetime as _dt

from hypothesis import strategies as st

from ..oracles import iers

US = 10**6
US_DAY = iers.US_DAY
BASE_DT = _dt.datetime(1973, 1, 3)
EQUINOX_SWITCH_MJD = 50506  # iau1980.equinox adds the kinematic terms from 1997-02-27 on

# real tables: 41684 .. 57802; keep one day of margin on both sides for labels that cross 0h
LO_MJD = 41686
HI_MJD = 57800


def us_to_datetime(us):
    return BASE_DT + _dt.timedelta(microseconds=us)


def datetime_to_us(dt):
    d = dt - BASE_DT
    return (d.days * 86400 + d.seconds) * US + d.microseconds


def mjd_of(us):
    return iers.BASE_MJD + us // US_DAY


def push_out_of_leap_windows(us, leap_days, half=120 * US):
    """Deterministic map: an instant inside [leap-120 s, leap+120 s] is moved 5 minutes later."""
    for m in leap_days:
        t = (m - iers.BASE_MJD) * US_DAY
        if t - half <= us <= t + half:
            return us + 300 * US
    return us


def leap_free(us_a, us_b, leap_days):
    """No leap second inside [a, b] (either order), with the 120 s guard."""
    lo, hi = min(us_a, us_b), max(us_a, us_b)
    for m in leap_days:
        t = (m - iers.BASE_MJD) * US_DAY
        if lo - 120 * US <= t <= hi + 120 * US:
            return False
    return True


@st.composite
def uniform_int(draw, lo, hi):
    """Uniform integer in [lo, hi] at unit granularity, any width.  Hypothesis' own st.integers is
    strongly biased towards small magnitudes on wide ranges (only ranges <= 1000 are uniform), so
    the value is assembled from base-1000 digits (three digits more than the width needs: the
    modulo bias is below 1e-9)."""
    width = hi - lo + 1
    if width <= 1000:
        return draw(st.integers(lo, hi))
    v, cap = 0, 1
    while cap < width * 10**9:
        v = v * 1000 + draw(st.integers(0, 999))
        cap *= 1000
    return lo + v % width


def mixed_int(lo, hi, edge_share=3):
    """(10-edge_share)/10 uniform over [lo, hi], the rest Hypothesis' edge-seeking integers."""
    return st.integers(0, 9).flatmap(
        lambda k: st.integers(lo, hi) if k < edge_share else uniform_int(lo, hi))


_LEAPS = {}


def _leap_table():
    """(mjd, TAI-UTC) pairs of the repository's tai-utc.dat (read once; [] if unavailable)."""
    if "t" not in _LEAPS:
        try:
            from .. import env

            _LEAPS["t"] = list(iers.tables(env.repo()).leaps)
        except Exception:
            _LEAPS["t"] = []
    return _LEAPS["t"]


@st.composite
def instants(draw, leap_days, lo_mjd=LO_MJD, hi_mjd=HI_MJD, boundary_bias=True):
    lo = (lo_mjd - iers.BASE_MJD) * US_DAY
    hi = (hi_mjd - iers.BASE_MJD) * US_DAY
    kind = draw(st.integers(0, 19)) if boundary_bias else 0
    if kind < 12:
        us = draw(uniform_int(lo, hi))
    elif kind < 17:
        day = draw(uniform_int(lo_mjd + 1, hi_mjd - 1))
        us = (day - iers.BASE_MJD) * US_DAY + draw(mixed_int(-90 * US, 90 * US, 4))
    elif kind < 19:
        day = EQUINOX_SWITCH_MJD if lo_mjd < EQUINOX_SWITCH_MJD < hi_mjd else lo_mjd + 1
        us = (day - iers.BASE_MJD) * US_DAY + draw(mixed_int(-90 * US, 90 * US, 4))
    elif draw(st.integers(0, 2)) == 0:
        # the instant at which ANOTHER scale reads exactly 0h (TAI, TT, GPS midnight): ties of the day-indexed lookups
        day = draw(uniform_int(lo_mjd + 1, hi_mjd - 1))
        tai_utc = max([10] + [int(v) for m, v in _leap_table() if m <= day]) if _leap_table() else 30
        off = draw(st.sampled_from([tai_utc * US, tai_utc * US + 32184000, (tai_utc - 19) * US]))
        us = (day - iers.BASE_MJD) * US_DAY - off + draw(st.sampled_from([0, 0, 1, -1]))
    elif draw(st.booleans()):
        us = draw(uniform_int(lo // (3600 * US), hi // (3600 * US))) * 3600 * US
    else:
        # the turn of a year (31 December, day 366 of leap years, 1 January); those that carry a leap
        # second are pushed out of its window like every other instant
        year = draw(st.integers(1974, 2016))
        day = (_dt.date(year, 1, 1) - _dt.date(1858, 11, 17)).days
        if lo_mjd + 1 < day < hi_mjd - 1:
            us = (day - iers.BASE_MJD) * US_DAY + draw(mixed_int(-90 * US, 90 * US, 4))
        else:
            us = draw(uniform_int(lo, hi))
    return push_out_of_leap_windows(us, leap_days)


def scales():
    return st.sampled_from(iers.SCALES)


def exact_scales():
    return st.sampled_from(iers.EXACT)


@st.composite
def timedeltas_us(draw, max_days=40):
    """Integer microseconds in +-max_days mixed with 0, +-1 us, +-86400 s."""
    k = draw(st.integers(0, 9))
    if k == 0:
        return draw(st.sampled_from([0, 1, -1, US_DAY, -US_DAY, US, -US]))
    if k < 3:
        return draw(st.integers(-3600 * US, 3600 * US))
    if k < 5:
        return draw(uniform_int(-3600 * US, 3600 * US))
    return draw(uniform_int(-max_days * US_DAY, max_days * US_DAY))


def era(us):
    """Class label: decade of the instant (to show that the whole table span is reached)."""
    return f"{int(1973 + us / (US_DAY * 365.25)) // 10 * 10}s"


# ------------------------------------------------------------------ clones (pickle / copy / deepcopy)

CLONE_MODES = ["pickle", "copy", "deepcopy", "pickle0", "pickle2", "twice"]


ARITH = ["arith-day", "arith-day", "arith-round", "arith-chain"]


def clone_modes(none_share=3, arith=False):
    """Which way a drawn Date (or an object holding Dates) travels before it is used.  arith=True adds dates that are
    the RESULT of date arithmetic (see `clone`)."""
    return st.sampled_from(["none"] * none_share + ["pickle", "copy", "deepcopy", "pickle", "deepcopy", "pickle0", "pickle2", "twice"]
                           + (ARITH if arith else []))


def _by_arithmetic(d, how):
    """The same instant under the same label, obtained by date arithmetic instead of construction (only for Date
    objects labelled in a scale in which arithmetic is exact: TAI, TT, GPS, and UTC within one UTC day):
    arith-day   (d - t) + t where d - t lies in the first 70 s of d's calendar day IN ITS OWN SCALE (for TAI / TT /
                GPS that is still the previous UTC day: the day-tabulated Earth-orientation data differ);
    arith-round (d + 3 h) - 3 h (not for UTC: a leap second may lie in between);
    arith-chain d - 40 x 1 min, then 40 additions of 1 min (not for UTC)."""
    from datetime import timedelta

    name = getattr(getattr(d, "scale", None), "name", None)
    if name not in ("TAI", "TT", "GPS", "UTC") or not hasattr(d, "_s"):
        # (UT1 / TDB: the library keeps such readings through a float day count, arithmetic costs 1-2 us there,
        # which no listed property forbids)
        return d
    if how == "arith-day":
        sod_us = int(round(d._s * 1e6))
        w_us = (sod_us * 7919) % 70_000_000
        if sod_us <= w_us:
            return d
        t = timedelta(microseconds=sod_us - w_us)
        early = d - t
        # the early date is CONSTRUCTED (its own table lookups), the date handed on is derived from it
        return type(d)(early.datetime, scale=name) + t
    if name == "UTC":
        return d
    if how == "arith-round":
        t = timedelta(hours=3)
        late = d + t
        return type(d)(late.datetime, scale=name) - t
    t = timedelta(minutes=1)
    out = d - 40 * t
    out = type(d)(out.datetime, scale=name)
    for _ in range(40):
        out = out + t
    return out


def clone(obj, how):
    """The object after pickle.loads(pickle.dumps(.)) / copy.copy / copy.deepcopy ('none': itself)."""
    import copy
    import pickle

    if how in (None, "none"):
        return obj
    if how in ARITH:
        return _by_arithmetic(obj, how)
    if how == "pickle":
        return pickle.loads(pickle.dumps(obj))
    if how == "pickle0":
        return pickle.loads(pickle.dumps(obj, protocol=0))
    if how == "pickle2":
        return pickle.loads(pickle.dumps(obj, protocol=2))
    if how == "copy":
        return copy.copy(obj)
    if how == "deepcopy":
        return copy.deepcopy(obj)
    if how == "twice":
        return copy.deepcopy(pickle.loads(pickle.dumps(copy.copy(obj))))
    raise ValueError(how)
