"""Repo location, EOP configurations, JPL set-up.

beyond caches EOP at Date construction, memoises nutation on str(date), and caches the
EopDb instance: one EOP configuration per process, chosen before the first Date.
"""

import os
import sys

_booted = False


def repo():
    return os.path.abspath(os.environ.get("VERIF_REPO", "/repo"))


def bootstrap():
    """Put the tree under test first on sys.path and verify that is what gets imported."""
    global _booted
    if _booted:
        return
    r = repo()
    if r in sys.path:
        sys.path.remove(r)
    sys.path.insert(0, r)
    os.environ["BEYOND_VERIF"] = "1"
    import warnings

    warnings.filterwarnings("ignore")
    import beyond

    where = os.path.dirname(os.path.abspath(beyond.__file__))
    if not where.startswith(r + os.sep):
        raise RuntimeError(f"beyond imported from {where}, expected under {r}")
    import logging

    logging.getLogger("beyond").setLevel(logging.CRITICAL)
    _booted = True


_eop_set = None


def eop(name):
    """Select the EOP configuration for this process. name: real | zero | missing[-pass|-warning|-error]"""
    global _eop_set
    bootstrap()
    if _eop_set is not None:
        if _eop_set != name:
            raise RuntimeError(f"EOP already configured as {_eop_set}, asked {name}")
        return
    from beyond.config import config

    if name == "real":
        config.update(
            {"eop": {"folder": os.path.join(repo(), "tests", "data", "pole"), "type": "all",
                     "missing_policy": "error"}}
        )
    elif name == "zero":
        from beyond.dates.eop import EopDb, Eop

        folder = os.path.join(repo(), "tests", "data", "pole")
        table = []
        with open(os.path.join(folder, "tai-utc.dat")) as fh:
            for line in fh:
                if line.strip():
                    p = line.split()
                    table.append((int(float(p[4]) - 2400000.5), float(p[6])))

        class ZeroDb:
            def __getitem__(self, mjd):
                val = None
                for d, v in reversed(table):
                    if d <= mjd:
                        val = v
                        break
                if val is None:
                    raise KeyError(mjd)
                return Eop(x=0, y=0, dx=0, dy=0, deps=0, dpsi=0, lod=0, ut1_utc=0, tai_utc=val)

        if "verif-zero" not in EopDb._dbs:
            EopDb.register(ZeroDb, "verif-zero")
        config.update({"eop": {"dbname": "verif-zero", "missing_policy": "error"}})
    elif name.startswith("missing"):
        pol = name.split("-", 1)[1] if "-" in name else "pass"
        config.update({"eop": {"folder": "/nonexistent-verif", "missing_policy": pol}})
    else:
        raise ValueError(name)
    _eop_set = name


def jpl(with_pck=True):
    bootstrap()
    from beyond.config import config

    d = os.path.join(repo(), "tests", "data", "jpl")
    files = [os.path.join(d, "de403_2000-2020.bsp")]
    if with_pck:
        files += [os.path.join(d, "pck00010.tpc"), os.path.join(d, "gm_de431.tpc")]
    config.set("env", "jpl", "files", files)
