#!/bin/sh
# usage: tools/run_mutants.sh [IDs...]   -> mutants/RESULTS.txt (one line per hand-written mutant)
cd "$(dirname "$0")/.." || exit 2
ids="$*"; [ -z "$ids" ] && ids=$(ls mutants | grep '^C')
out=mutants/RESULTS.txt; tmp=$(mktemp)
for id in $ids; do
  for m in mutants/$id/*.patch; do
    [ -f "$m" ] || continue
    r=$(tools/mutant.sh "$m" "$id" --jobs ${VERIF_JOBS:-16} 2>&1)
    verdict=$(echo "$r" | tail -1)
    kinds=$(echo "$r" | grep -E "^  \[" | sed -E 's/^  \[([a-z_0-9]+)\] ([^ ]+).*/\1:\2/' | sort -u | head -4 | tr '\n' ' ')
    echo "$id $(basename "$m") | $verdict | $kinds" | tee -a "$tmp"
  done
done
# merge with previous results of other ids
if [ -f "$out" ]; then for id in $ids; do grep -v "^$id " "$out" > "$out.n"; mv "$out.n" "$out"; done; fi
cat "$tmp" >> "$out"; sort -o "$out" "$out"; rm -f "$tmp"
