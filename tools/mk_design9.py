#!/venv/bin/python
"""Rewrites the tables of DESIGN.md section 9 from mutants/RESULTS.txt and seeded/*/ (run tools/seed_meta.py first)."""
import collections, glob, json, os, re, subprocess
HERE = os.path.dirname(os.path.dirname(os.path.abspath(__file__)))
rows = subprocess.run(["/venv/bin/python", os.path.join(HERE, "tools/seed_meta.py")], capture_output=True, text=True).stdout.strip().splitlines()
res = [l for l in open(os.path.join(HERE, "mutants/RESULTS.txt")) if l[0] == "C"]
per = collections.Counter(l.split()[0] for l in res)
det = collections.Counter(l.split()[0] for l in res if "DETECTED" in l)
nmut = {os.path.basename(d): len(glob.glob(d + "/*.patch")) for d in glob.glob(os.path.join(HERE, "mutants/C*"))}
mut = "| property | mutants in `mutants/<ID>/` | in the sweep | detected in the sweep |\n|---|---|---|---|\n" + "\n".join(
    f"| {k} | {nmut.get(k, 0)} | {per[k]} | {det[k]} |" for k in sorted(nmut))
total = first = harmless = 0
for d in sorted(glob.glob(os.path.join(HERE, "seeded/*"))):
    total += 1
    m = json.load(open(d + "/meta.json"))
    f1 = d + "/verification.first.txt"
    notes = m.get("notes") or ""
    if "no longer binds" in notes:
        harmless += 1
    elif not os.path.exists(f1):
        first += 1
    else:
        t = open(f1).read()
        own = m["property"]
        if re.search(rf"check {own} quick against the changed tree: exit 1", t):
            first += 1
missed = total - first - harmless
tbl = "| seeded change (`seeded/<dir>`) | what was changed | what it needs to manifest | detected by (quick tier) | not detected by / history |\n|---|---|---|---|---|\n" + "\n".join(rows)
p = os.path.join(HERE, "DESIGN.md")
s = open(p).read()
s = re.sub(r"(<!-- MUT-BEGIN -->).*?(<!-- MUT-END -->)", lambda m_: m_.group(1) + "\n" + mut + "\n" + m_.group(2), s, flags=re.S)
s = re.sub(r"(<!-- SEED-BEGIN -->).*?(<!-- SEED-END -->)", lambda m_: m_.group(1) + "\n" + tbl + "\n" + m_.group(2), s, flags=re.S)
s = re.sub(r"(<!-- COUNT-BEGIN -->).*?(<!-- COUNT-END -->)", lambda m_: m_.group(1) + f"Result: {total} seeded changes; {first} were detected by the quick tier of their own property as first built, {harmless} became harmless through a repair made meanwhile (the `M2E` iteration cap: detected on the tree before that repair), and {missed} were missed at first by their own property's check (some of them were caught by another property's check)." + m_.group(2), s, flags=re.S)
# outcome per property, from KNOWN_FINDINGS.txt
fx, kn = collections.defaultdict(list), collections.defaultdict(list)
for l in open(os.path.join(HERE, "KNOWN_FINDINGS.txt")):
    m_ = re.match(r"fixed: property=(C\d+) (\w+) (.*)", l)
    if m_:
        fx[m_.group(1)].append((m_.group(2), m_.group(3).strip()))
    m_ = re.match(r"finding: property=(C\d+) key=(\S+) (.*)", l)
    if m_:
        kn[m_.group(1)].append(m_.group(3).strip())
out = "| property | repaired (`fix:` commits) | known findings | what (commit, first words) |\n|---|---|---|---|\n"
for k in [f"C{i:02d}" for i in range(1, 21)]:
    what = "; ".join(f"`{c}` {t[:95]}" for c, t in fx[k])
    if kn[k]:
        what += " — **known:** " + "; ".join(t[:120] for t in kn[k])
    out += f"| {k} | {len(fx[k])} | {len(kn[k])} | {what.replace('|', '/')} |\n"
nfix = sum(len(v) for v in fx.values())
nkn = sum(len(v) for v in kn.values())
nreg = len(glob.glob(os.path.join(HERE, "regress", "*", "*.json")))
if "<!-- OUTCOME-BEGIN -->" in s:
    s = re.sub(r"(<!-- OUTCOME-BEGIN -->).*?(<!-- OUTCOME-END -->)", lambda m_: m_.group(1) + "\n" + out + m_.group(2), s, flags=re.S)
s = re.sub(r"\*\*Defects repaired\.\*\* \d+ `fix:` commits", f"**Defects repaired.** {nfix} `fix:` commits", s)
s = re.sub(r"holds \d+ shrunk failing inputs", f"holds {nreg} shrunk failing inputs", s)
open(p, "w").write(s)
print(total, first, harmless, missed, "fixes", nfix, "known", nkn, "regress", nreg)
