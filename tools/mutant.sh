#!/bin/sh
# usage: tools/mutant.sh <patch-file> <prop> [extra check args]
# Applies the patch to a scratch copy of /repo, runs the quick check against it, removes the copy.
# Prints DETECTED / MISSED.
patch=$(readlink -f "$1"); prop=$2; shift 2
d=$(mktemp -d /tmp/verif-mut.XXXXXX)
rsync -a --exclude .git --exclude htmlcov --exclude doc /repo/ "$d/"
if ! (cd "$d" && patch -p1 -s < "$patch"); then echo "PATCH-FAILED $patch"; rm -rf "$d"; exit 3; fi
cd "$(dirname "$0")/.." || exit 2
out=$(VERIF_REPO="$d" VERIF_NO_EVIDENCE=1 VERIF_REPLAY_DIR=/tmp/verif-mut-replays timeout 1500 ./check "$prop" "$@" 2>&1); rc=$?
rm -rf "$d" /tmp/verif-mut-replays
echo "$out" | grep -E "VIOLATION|HARNESS|^  \[" | head -6
if [ $rc -eq 1 ]; then echo "DETECTED $(basename "$patch") by $prop"; else echo "MISSED(rc=$rc) $(basename "$patch") by $prop"; fi
