#!/bin/sh
# usage: tools/seed_eval.sh <seed-worktree> <ID> <name> [props...]
# 1. confirms the seeded change in a fresh scratch copy of /repo HEAD: demo passes without it, fails with it,
#    repo test suite still 306 passed / 11 failed with it;
# 2. runs the quick checks of the given properties against the changed copy (VERIF_REPO);
# 3. stores patch.diff, demo, meta.json (+ verification record) under seeded/<ID>-<name>/.
wt=$1; id=$2; name=$3; shift 3
here=$(cd "$(dirname "$0")/.." && pwd)
out="$here/seeded/$id-$name"; mkdir -p "$out"
# <seed-worktree> = "-" re-evaluates an already stored seed (after a check was strengthened)
if [ "$wt" != "-" ]; then cp "$wt/SEED/patch.diff" "$out/patch.diff"; cp "$wt/SEED/demo.py" "$out/demo.py"; cp "$wt/SEED/meta.json" "$out/meta.seed.json"; fi
if [ -f "$out/verification.txt" ] && [ ! -f "$out/verification.first.txt" ]; then mv "$out/verification.txt" "$out/verification.first.txt"; fi
d=$(mktemp -d /tmp/verif-seed.XXXXXX)
git -C /repo archive HEAD | tar -x -C "$d"
rec="$out/verification.txt"; : > "$rec"
echo "repo HEAD: $(git -C /repo log --format=%h -1)" >> "$rec"
(cd "$d" && mkdir -p SEED && cp "$out/demo.py" SEED/demo.py && PYTHONPATH="$d" /venv/bin/python SEED/demo.py > "$out/demo_without.txt" 2>&1; echo "demo without change: exit $?" >> "$rec")
if ! (cd "$d" && patch -p1 -s < "$out/patch.diff"); then echo "PATCH DOES NOT APPLY" | tee -a "$rec"; rm -rf "$d"; exit 3; fi
(cd "$d" && PYTHONPATH="$d" /venv/bin/python SEED/demo.py > "$out/demo_with.txt" 2>&1; echo "demo with change: exit $?" >> "$rec")
(cd "$d" && timeout 1200 /venv/bin/python -m pytest -q -p no:cacheprovider --no-cov --timeout=600 2>&1 | tail -1 >> "$rec")
for p in "$@"; do
  res=$(cd "$here" && VERIF_REPO="$d" VERIF_NO_EVIDENCE=1 VERIF_REPLAY_DIR=/tmp/verif-seed-replays timeout 1800 ./check "$p" 2>&1); rc=$?
  echo "check $p quick against the changed tree: exit $rc" >> "$rec"
  echo "$res" | grep -E "^  \[|VIOLATION" | head -6 | cut -c1-300 >> "$rec"
done
rm -rf "$d" /tmp/verif-seed-replays
cat "$rec"
