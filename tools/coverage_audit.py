#!/venv/bin/python
"""Diagnostic: which lines of the property's anchor files does its check never execute?

    tools/coverage_audit.py C09 [--tier quick] [--all-files]

Runs ./check <ID> with VERIF_COVERAGE set (one coverage data file per shard, see vf/core.py), combines them and
prints, per anchor file of the property (or every file of the package with --all-files), the functions holding
lines that were never executed, with those lines.  A region no generated case reaches is a region in which no
change can be detected: the output is the to-do list for the generators.  Not part of any registered command."""
import ast, glob, json, os, shutil, subprocess, sys

HERE = os.path.dirname(os.path.dirname(os.path.abspath(__file__)))
REPO = os.environ.get("VERIF_REPO", "/repo")


def functions(path):
    tree = ast.parse(open(path).read())
    spans = []

    def walk(node, prefix):
        for ch in ast.iter_child_nodes(node):
            if isinstance(ch, (ast.FunctionDef, ast.AsyncFunctionDef, ast.ClassDef)):
                name = prefix + ch.name
                if not isinstance(ch, ast.ClassDef):
                    spans.append((ch.lineno, ch.end_lineno, name))
                walk(ch, name + ".")

    walk(tree, "")
    return spans


def main():
    pid = sys.argv[1]
    tier = sys.argv[sys.argv.index("--tier") + 1] if "--tier" in sys.argv else "quick"
    allfiles = "--all-files" in sys.argv
    d = f"/tmp/verif-cov-{pid}"
    shutil.rmtree(d, ignore_errors=True)
    os.makedirs(d)
    env = dict(os.environ, VERIF_COVERAGE=d, VERIF_NO_EVIDENCE="1", VERIF_REPLAY_DIR=d + "/replays")
    rc = subprocess.call([os.path.join(HERE, "check"), pid, "--tier", tier], env=env, stdout=subprocess.DEVNULL)
    print(f"check {pid} --tier {tier}: exit {rc}")
    import coverage

    cov = coverage.Coverage(data_file=os.path.join(d, "combined"), branch=True)
    cov.combine(glob.glob(os.path.join(d, "cov.*")), keep=False)
    cov.save()
    data = cov.get_data()
    props = {json.loads(l)["id"]: json.loads(l) for l in open(os.path.join(HERE, "properties.jsonl"))}
    anchors = [a for a in props[pid]["anchors"]["files"] if a.endswith(".py")]
    files = sorted(data.measured_files()) if allfiles else [os.path.join(REPO, a) for a in anchors]
    for path in files:
        if not os.path.exists(path):
            continue
        try:
            _, stmts, _, missing, _ = cov.analysis2(path)
        except Exception as e:
            print(f"## {path}: not measured ({e})")
            continue
        src = open(path).read().splitlines()
        print(f"## {os.path.relpath(path, REPO)}: {len(stmts) - len(missing)}/{len(stmts)} statements executed")
        by_fn = {}
        spans = functions(path)
        for ln in missing:
            owner = "<module>"
            for a, b, name in spans:
                if a <= ln <= b:
                    owner = name  # innermost wins (spans are visited outer first)
            by_fn.setdefault(owner, []).append(ln)
        for fn, lns in by_fn.items():
            print(f"  {fn}: lines {lns}")
            for ln in lns[:12]:
                print(f"      {ln:5d} {src[ln - 1].strip()[:110]}")
    shutil.rmtree(d, ignore_errors=True)


main()
