#!/bin/sh
# usage: tools/seed_sweep.sh "<seeds>" [IDs...]   - quick tier of every property on the unchanged tree for several
# VERIF_SEED values (evidence untouched); prints one line per run that is not quiet.  For `vp run`.
seeds=$1; shift
ids=${*:-C01 C02 C03 C04 C05 C06 C07 C08 C09 C10 C11 C12 C13 C14 C15 C16 C17 C18 C19 C20}
cd "$(dirname "$0")/.." || exit 2
for sd in $seeds; do for p in $ids; do
  out=$(VERIF_SEED=$sd VERIF_NO_EVIDENCE=1 VERIF_REPLAY_DIR=sweep-replays ./check $p 2>&1); rc=$?
  if [ $rc -ne 0 ]; then echo "NOT-QUIET $p seed=$sd exit=$rc"; echo "$out" | grep -E "^  \[|VIOLATION|INCONCLUSIVE|Error" | head -5 | cut -c1-400; else echo "quiet $p seed=$sd"; fi
done; done
