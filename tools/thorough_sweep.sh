#!/bin/sh
# usage: tools/thorough_sweep.sh [IDs...]  - thorough tier of every property on the unchanged tree (evidence untouched);
# one line per property, details of the runs that are not quiet.  For `vp run`.
ids=${*:-C19 C14 C05 C12 C01 C17 C09 C16 C03 C04 C06 C07 C08 C10 C11 C13 C15 C18 C20 C02}
cd "$(dirname "$0")/.." || exit 2
for p in $ids; do
  s=$(date +%s)
  out=$(VERIF_NO_EVIDENCE=1 VERIF_REPLAY_DIR=sweep-replays ./check $p --tier thorough ${VERIF_SCALE:+--scale $VERIF_SCALE} 2>&1); rc=$?
  echo "THOROUGH $p exit=$rc $(( $(date +%s) - s ))s"
  if [ $rc -ne 0 ]; then echo "$out" | grep -E "^  \[|VIOLATION|INCONCLUSIVE|Error" | head -8 | cut -c1-500; fi
done
