#!/venv/bin/python
"""Merges seeded/<id>-<name>/meta.seed.json (written by the seeding sub-agent) with verification.txt (written by
tools/seed_eval.sh) into meta.json, and prints the table for DESIGN.md section 9."""
import glob, json, os, re
HERE = os.path.dirname(os.path.dirname(os.path.abspath(__file__)))
rows = []
for d in sorted(glob.glob(os.path.join(HERE, "seeded", "*"))):
    try:
        seed = json.load(open(os.path.join(d, "meta.seed.json")))
    except Exception:
        seed = {}
    ver = open(os.path.join(d, "verification.txt")).read() if os.path.exists(os.path.join(d, "verification.txt")) else ""
    extra = open(os.path.join(d, "notes.txt")).read().strip() if os.path.exists(os.path.join(d, "notes.txt")) else ""
    checks = re.findall(r"check (C\d+) quick against the changed tree: exit (\d+)", ver)
    caught = [c for c, rc in checks if rc == "1"]
    missed = [c for c, rc in checks if rc != "1"]
    kinds = re.findall(r"^\s+\[(\w+)\] ([\w:@./\-<>]+):", ver, re.M)
    meta = dict(
        property=seed.get("property", os.path.basename(d).split("-")[0]),
        summary=seed.get("summary"), needs=seed.get("needs"), files=seed.get("files"),
        seeded_by="fresh sub-agent given only the property text and a scratch git worktree of /repo",
        confirmed=dict(
            demo_without_change="exit 0" if "demo without change: exit 0" in ver else "NOT CONFIRMED",
            demo_with_change="exit 1" if "demo with change: exit 1" in ver else "NOT CONFIRMED",
            repo_test_suite_with_change=(re.findall(r"=+ (.*passed.*) =+", ver) or ["?"])[0],
            how="tools/seed_eval.sh: fresh `git archive HEAD` copy of /repo under /tmp (removed afterwards), demo run without and with "
                "patch.diff, repository suite with it, then the quick checks with VERIF_REPO pointing at the changed copy "
                "(a scratch copy instead of `git -C /repo apply`, because builder processes were reading /repo concurrently)",
            repo_head=(re.findall(r"repo HEAD: (\w+)", ver) or ["?"])[0],
        ),
        detected_by=caught, not_detected_by=missed, first_failure_kinds=[f"{a}:{b}" for a, b in kinds][:6],
        ran=seed.get("ran"), notes=extra,
    )
    json.dump(meta, open(os.path.join(d, "meta.json"), "w"), indent=1)
    rows.append((os.path.basename(d), meta["summary"] or "", meta["needs"] or "", caught, missed, extra))
for name, summ, needs, caught, missed, extra in rows:
    print(f"| `{name}` | {summ[:160]} | {needs[:200]} | {', '.join(caught) or '-'} | {', '.join(missed) or '-'}{' - ' + extra if extra else ''} |")
