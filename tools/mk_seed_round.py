#!/venv/bin/python
"""Prepares a round of seeded-defect worktrees: tools/mk_seed_round.py <round-number> [IDs...]
For each property: a scratch git worktree of /repo HEAD at /tmp/seed<N>-<ID> holding only SEED_BRIEF.md (from
scratch/SEED_BRIEF.md) and PROPERTY.txt (the property text, a steer, and the one-line summaries of the changes
already planted for that property - nothing else from /verif)."""
import glob, json, os, subprocess, sys
HERE = os.path.dirname(os.path.dirname(os.path.abspath(__file__)))
n = sys.argv[1]
ids = sys.argv[2:]
props = [json.loads(l) for l in open(os.path.join(HERE, "properties.jsonl"))]
STEER = open(os.path.join(HERE, "tools", f"SEED_STEER_{n}.txt")).read().strip()
for p in props:
    if ids and p["id"] not in ids:
        continue
    wt = f"/tmp/seed{n}-{p['id']}"
    if not os.path.isdir(wt):
        subprocess.check_call(["git", "-C", "/repo", "worktree", "add", "--detach", "-q", wt, "HEAD"])
    planted = []
    for d in sorted(glob.glob(os.path.join(HERE, "seeded", p["id"] + "-*"))):
        try:
            planted.append(json.load(open(os.path.join(d, "meta.seed.json"))).get("summary", ""))
        except Exception:
            pass
    txt = [f"{p['id']}: {p['title']}", "", "STATEMENT", p["statement"], "", "QUANTIFIER", p["quantifier"]["text"], "",
           "WHY THE EXISTING TESTS CANNOT SETTLE IT", p["why_tests_cant"], "", "CODE ANCHORS", json.dumps(p["anchors"]["files"]), "",
           "HOW TO CHOOSE THIS TIME: " + STEER, "", "ALREADY PLANTED BY OTHERS AND CAUGHT (do something DIFFERENT):"]
    txt += ["- " + s for s in planted if s]
    open(os.path.join(wt, "PROPERTY.txt"), "w").write("\n".join(txt) + "\n")
    open(os.path.join(wt, "SEED_BRIEF.md"), "w").write(open(os.path.join(HERE, "tools", "SEED_BRIEF.md")).read())
    print(wt, len(planted), "already planted")
