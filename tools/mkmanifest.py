#!/venv/bin/python
"""Regenerates MANIFEST.json from vf/props/*.py (LEVEL_TEXT / TECHNIQUE / LEVEL_NOTE per module)."""
import importlib, json, os, sys
HERE = os.path.dirname(os.path.dirname(os.path.abspath(__file__)))
sys.path.insert(0, HERE)
props = [json.loads(l) for l in open(os.path.join(HERE, "properties.jsonl"))]
checks, na = [], []
ready = set(open(os.path.join(HERE, "vf", "props", "READY")).read().split())
for p in props:
    pid = p["id"]
    path = os.path.join(HERE, "vf", "props", pid.lower() + ".py")
    if pid not in ready or not os.path.exists(path):
        na.append(dict(property_id=pid, reason="check not built yet (planned: see DESIGN.md section 4); nothing is claimed for it"))
        continue
    mod = importlib.import_module("vf.props." + pid.lower())
    checks.append(dict(
        property_id=pid,
        quick_cmd=f"./check {pid} --tier quick",
        thorough_cmd=f"./check {pid} --tier thorough",
        evidence_file=f"evidence/{pid}.json",
        replay_cmd_template=f"./check {pid} --replay {{path}}",
        engine="vf",
        level_claimed=dict(category="exploration", text=getattr(mod, "LEVEL_TEXT", "Generated-input search (Hypothesis) against independent oracles; no absence claim."), design_ref=f"DESIGN.md section 4, {pid}"),
        level_note=getattr(mod, "LEVEL_NOTE", "; ".join(getattr(mod, "ASSUMPTIONS", []))),
        technique=getattr(mod, "TECHNIQUE", "property-based testing (Hypothesis) against an independent oracle"),
    ))
man = dict(
    version=1,
    setup_cmd="(/venv/bin/python -c 'import hypothesis' 2>/dev/null || /venv/bin/pip install --no-index --find-links /opt/veriftools/wheels hypothesis) && (/venv/bin/pip install -q --no-index --find-links /opt/veriftools/wheels --target /verif/.deps atheris >/dev/null 2>&1 || true)",
    hooks=dict(guard="BEYOND_VERIF", enable="no source hooks: every observation point is public API; checks import /repo's working tree directly (VERIF_REPO overrides the location)", baseline_off_cmd="cd /repo && /venv/bin/python -m pytest -ra -q -p no:cacheprovider --timeout=900 --continue-on-collection-errors", source_commits=[], add_only=True),
    engines=[dict(name="vf", path="vf/", serves_properties=[c["property_id"] for c in checks], kind_free_text="(atheris in .deps is used only by the thorough tier of C12; its absence is reported as skipped) Hypothesis-driven facet runner: seeded shards in fresh processes, JSON cases, shrunk failure = replay file, known-findings predicates, evidence writer")],
    checks=checks,
    notes="All checks: ./check <id> [--tier quick|thorough] [--replay file]; exit 0 held / 1 VIOLATION / 2 harness error. VERIF_SEED selects the seed. Genuine defects repaired in /repo as 'fix:' commits are listed in KNOWN_FINDINGS.txt as fixed: lines.",
    not_applicable=na,
)
json.dump(man, open(os.path.join(HERE, "MANIFEST.json"), "w"), indent=1)
print(len(checks), "checks;", len(na), "not yet claimed")
