#!/bin/bash
# usage: tools/seed_autoeval.sh <round>    - evaluates the seeds of /tmp/seed<round>-CXX as they arrive (two at a time):
# tools/seed_eval.sh with the seed's own property; one summary line per seed in /tmp/q/eval<round>-summary.txt
R=$1
cd "$(dirname "$0")/.." || exit 2
mkdir -p /tmp/q
slug() { /venv/bin/python - "$1" "$R" <<'PY'
import json,re,sys
m=json.load(open(sys.argv[1]))
f=(m.get("files") or ["x"])[0].split("/")[-1].replace(".py","")
w=re.findall(r"[A-Za-z_][A-Za-z_0-9]+", m.get("summary",""))
stop={"beyond","the","a","an","of","in","and","to","py","is","was","now","for","under","that","which","with","no","longer","its","io","utils","orbits","frames","propagators","dates","env","class","method","function","helper","new"}
w=[x.lower() for x in w if x.lower() not in stop and x.lower()!=f.lower()][:5]
print(("r"+sys.argv[2]+"-"+f+"-"+"-".join(w))[:60].strip("-"))
PY
}
evalone() {
  id=$1; wt=/tmp/seed$R-$id
  name=$(slug $wt/SEED/meta.json)
  tools/seed_eval.sh $wt $id "$name" $id > /tmp/q/eval$R-$id.txt 2>&1
  echo "$id $name $(grep -E '^check' /tmp/q/eval$R-$id.txt | sed 's/quick against the changed tree: //' | tr '\n' ';') $(grep -E 'demo w' /tmp/q/eval$R-$id.txt | tr '\n' ';')" >> /tmp/q/eval$R-summary.txt
}
while true; do
  pending=0
  for id in C01 C02 C03 C04 C05 C06 C07 C08 C09 C10 C11 C12 C13 C14 C15 C16 C17 C18 C19 C20; do
    grep -q "^$id " /tmp/q/eval$R-summary.txt 2>/dev/null && continue
    pending=1
    [ -f /tmp/q/eval$R-$id.lock ] && continue
    wt=/tmp/seed$R-$id
    if [ -f $wt/SEED/meta.json ] && [ -f $wt/SEED/patch.diff ] && [ -f $wt/SEED/demo.py ]; then
      while [ $(jobs -r | wc -l) -ge 2 ]; do sleep 5; done
      touch /tmp/q/eval$R-$id.lock
      evalone $id &
    fi
  done
  [ $pending -eq 0 ] && break
  [ -f /tmp/q/stop$R ] && break
  sleep 15
done
wait
