#!/bin/sh
# usage: tools/mkmutant.sh <PROP> <name> <file-relative-to-repo> <python-expr old> <new>   (exact single replacement)
prop=$1; name=$2; file=$3; old=$4; new=$5
d=$(mktemp -d /tmp/verif-mk.XXXXXX)
mkdir -p "$d/a/$(dirname "$file")" "$d/b/$(dirname "$file")"
cp "/repo/$file" "$d/a/$file"
OLD="$old" NEW="$new" /venv/bin/python - "$d/a/$file" "$d/b/$file" <<'PY'
import os,sys
s=open(sys.argv[1]).read()
old=os.environ["OLD"]; new=os.environ["NEW"]
n=s.count(old)
if n!=1:
    sys.exit(f"pattern occurs {n} times")
open(sys.argv[2],"w").write(s.replace(old,new))
PY
rc=$?
if [ $rc -ne 0 ]; then rm -rf "$d"; exit 1; fi
mkdir -p "$(dirname "$0")/../mutants/$prop"
(cd "$d" && diff -u "a/$file" "b/$file") > "$(dirname "$0")/../mutants/$prop/$name.patch"
rm -rf "$d"
echo "wrote mutants/$prop/$name.patch"
